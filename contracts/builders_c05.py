"""The builder API returns what it says (C05 anchor: graphs are BUILT with apply / >> / bind / case-when-otherwise / cached / WithDefaultOptions, and the class
specifications are stated over the fields of the objects these return; the bounded searches build their recipes with the same API, so a builder that links a
graph wrongly is invisible to both).  Each builder's real body is run symbolically with symbolic arguments; obligations are facts about the returned object."""
from __future__ import annotations

import z3

from pyvc import theory as T
from pyvc.values import *  # noqa
from pyvc.symex import explore
from pyvc.solve import VC
from .laws import FN_CONTRACTS, SELF, flat_events


def _is_ensured(v, raw):
    """v is `raw` itself (an evaluatable) or Value(raw)"""
    if isinstance(v, Sym):
        return v.term.eq(raw)
    return isinstance(v, Obj) and v.clsname == "Value" and isinstance(v.fields.get("value"), Sym) and v.fields["value"].term.eq(raw)


def build(repo):
    syn, vcs, und = [], [], []
    EV = repo.find_class("Evaluatable")
    CW = repo.find_class("CaseWhen")

    def ob(name, ok, detail=""):
        syn.append({"name": f"builders:C05:{name}", "ok": bool(ok), "detail": str(detail)[:160], "group": "builders:C05"})
    X = lambda n: Sym("ev", z3.Const(n, T.Ev), EV)      # noqa
    V = lambda n: Sym("val", z3.Const(n, T.Val))        # noqa
    cfg = {"abstract_classes": (), "fn_contracts": FN_CONTRACTS}

    def paths(name, run):
        ps = explore(repo, run, tag="bd", config=cfg)
        u = sorted({p.value for p in ps if p.kind == "unsupported"})
        if u:
            und.append((name, u))
            return []
        for i, p in enumerate(ps):
            evs = [e for e in flat_events(p.trace) if e[0] in ("call", "apply", "req", "cache")]
            ob(f"{name}:evaluates-nothing#{i}", not evs, evs[:2])
        return ps
    # ---- Evaluatable.apply / bind / >>
    for meth, cls in (("apply", "Apply"), ("__rshift__", "Apply"), ("bind", "Bind")):
        ps = paths(f"Evaluatable.{meth}", lambda ex, meth=meth: ex.call(ex.getattr(X("src"), meth), [V("fn")], {}))
        for i, p in enumerate(ps):
            if p.kind == "ok":
                r = p.value
                good = isinstance(r, Obj) and r.clsname == cls and isinstance(r.fields.get("evaluatable"), Sym) and str(r.fields["evaluatable"].term) == "src"
                f = r.fields.get("func") if good else None
                good = good and (_is_ensured(f, z3.Const("fn", T.Val)) if cls == "Apply" else (isinstance(f, Sym) and str(f.term) == "fn"))
                ob(f"Evaluatable.{meth}:returns-{cls}(self,-function)#{i}", good, repr(r))
            else:
                x = p.value
                ob(f"Evaluatable.{meth}:rejects-only-a-non-callable#{i}", isinstance(x, Obj) and x.clsname == "TypeError" and any("iscallable" in str(c) for c in p.pc), repr(x))
    # ---- case / when / otherwise
    cond, res, dflt, disp = (z3.Const(n, T.Val) for n in ("cond", "res", "dflt", "disp"))
    ps = paths("case", lambda ex: ex.call_pyfunc(PyFunc(repo.module("conditional").functions["case"], repo.module("conditional")), [V("disp")], {}))
    for i, p in enumerate(ps):
        r = p.value
        good = p.kind == "ok" and isinstance(r, Obj) and r.clsname == "CaseWhen" and _is_ensured(r.fields.get("dispatch"), disp) \
            and isinstance(r.fields.get("cases"), (PyList, PyTuple)) and not r.fields["cases"].items and r.fields.get("default") is MISSING
        ob(f"case:returns-an-empty-case-over-the-dispatch#{i}", good, repr(r))
    n_old = z3.Function("fld!CaseWhen.cases#n", T.Ev, T.I)(SELF)
    a0 = z3.Function("fld!CaseWhen.cases#at0", T.Ev, T.I, T.Ev)
    a1 = z3.Function("fld!CaseWhen.cases#at1", T.Ev, T.I, T.Ev)
    I = z3.Const("I!bd", T.I)

    def vterm(x):
        if isinstance(x, Sym):
            return T.val_of_ev(x.term) if x.kind == "ev" else x.term
        if isinstance(x, Obj):
            return T.val_of_ev(x.term)
        return None
    ps = paths("CaseWhen.when", lambda ex: ex.call(ex.getattr(ex.sym_self(CW), "when"), [V("cond"), V("res")], {}))
    for i, p in enumerate(ps):
        r = p.value
        good = p.kind == "ok" and isinstance(r, Obj) and r.clsname == "CaseWhen" and str(getattr(r.fields.get("dispatch"), "term", "")) == "fld!CaseWhen.dispatch(self)" \
            and "fld!CaseWhen.default(self)" in str(getattr(r.fields.get("default"), "term", "")) and isinstance(r.fields.get("cases"), SeqV)
        ob(f"CaseWhen.when:keeps-dispatch-and-default#{i}", good, repr(r))
        if not good:
            continue
        seq = r.fields["cases"]
        ob(f"CaseWhen.when:one-more-case#{i}", z3.simplify(seq.n - n_old).eq(z3.IntVal(1)), str(seq.n))
        e = seq.elem(I)
        ok_shape = isinstance(e, PyTuple) and len(e.items) == 2 and all(vterm(x) is not None for x in e.items)
        ob(f"CaseWhen.when:cases-are-pairs#{i}", ok_shape, repr(e))
        if not ok_shape:
            continue
        t0, t1 = vterm(e.items[0]), vterm(e.items[1])
        hyp = T.val_axioms() + p.pc + p.defs
        m = {"law": "builders", "cls": "CaseWhen"}
        vcs.append(VC(f"builders:C05:CaseWhen.when:earlier-cases-kept-in-order#{i}", hyp + [I >= 0, I < n_old],
                      z3.And(t0 == T.val_of_ev(a0(SELF, I)), t1 == T.val_of_ev(a1(SELF, I))), m))
        last0, last1 = z3.simplify(z3.substitute(t0, (I, n_old))), z3.simplify(z3.substitute(t1, (I, n_old)))
        for nm, last, raw in (("condition", last0, cond), ("result", last1, res)):
            is_raw = any(str(z3.simplify(c)) == f"isev({raw})" for c in p.pc)
            okl = last.eq(raw) if is_raw else (str(last).startswith("val_of_ev(bd!obj_Value"))
            ob(f"CaseWhen.when:new-case-appended-LAST-with-the-given-{nm}#{i}", okl, str(last)[:80])
    ps = paths("CaseWhen.otherwise", lambda ex: ex.call(ex.getattr(ex.sym_self(CW), "otherwise"), [V("dflt")], {}))
    for i, p in enumerate(ps):
        r = p.value
        good = p.kind == "ok" and isinstance(r, Obj) and r.clsname == "CaseWhen" and str(getattr(r.fields.get("dispatch"), "term", "")) == "fld!CaseWhen.dispatch(self)" \
            and _is_ensured(r.fields.get("default"), dflt) and isinstance(r.fields.get("cases"), SeqV) and str(r.fields["cases"].n) == str(n_old)
        if good:
            e = r.fields["cases"].elem(I)
            good = isinstance(e, PyTuple) and len(e.items) == 2 and isinstance(e.items[0], Sym) and e.items[0].term.eq(a0(SELF, I)) and e.items[1].term.eq(a1(SELF, I))
        ob(f"CaseWhen.otherwise:keeps-dispatch-and-cases-sets-the-default#{i}", good, repr(r))
    # ---- cached / WithDefaultOptions
    ps = paths("cached", lambda ex: ex.call_pyfunc(PyFunc(repo.module("cache").functions["cached"], repo.module("cache")), [X("src"), V("cache")], {}))
    for i, p in enumerate(ps):
        r = p.value
        good = p.kind == "ok" and isinstance(r, Obj) and r.clsname == "Cached" and str(getattr(r.fields.get("evaluatable"), "term", "")) == "src"
        c = r.fields.get("cache") if good else None
        given = any(str(z3.simplify(x)) == "truthy(cache)" for x in p.pc)
        good = good and ((isinstance(c, Sym) and str(c.term) == "cache") if given else (isinstance(c, Obj) and c.clsname == "MemoryCache"))
        ob(f"cached:wraps-the-expression-with-the-given-(else-a-fresh-memory)-cache#{i}", good, repr(r))
    ps = paths("WithDefaultOptions", lambda ex: ex.call_pyfunc(PyFunc(repo.module("option").functions["WithDefaultOptions"], repo.module("option")),
                                                               [X("src"), Sym("opt", z3.Const("P", T.Opt))], {}))
    for i, p in enumerate(ps):
        r = p.value
        good = p.kind == "ok" and isinstance(r, Obj) and r.clsname == "WithOptions" and str(getattr(r.fields.get("evaluatable"), "term", "")) == "src" \
            and str(getattr(r.fields.get("options"), "term", "")) == "P" and r.fields.get("force") is False
        ob(f"WithDefaultOptions:is-WithOptions(not-forced)#{i}", good, repr(r))
    return vcs, syn, und
