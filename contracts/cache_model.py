"""Contracts of cache backends (used wherever the real code calls request.cache.get/set/exists).

B-sound (default): the backend follows the Cache contract but is otherwise arbitrary (it may miss, forget, claim an entry exists
and fail to retrieve it, or fail to read back what was just stored - C17); every value it hands out was stored earlier for the
same fingerprint, hence - by the cache invariant INV and the soundness corollary (fingerprint equal => outcome equal, proved
separately from L1+L2) - equals the memo-free value of the wrapped evaluatable under the current options.
The obligations generated here check the *guarantee* side: every `set` stores exactly that value, and nothing is stored on a
failing path (L7, C12)."""
from __future__ import annotations

import z3

from pyvc import theory as T
from pyvc.values import *  # noqa

T.assume("B-reliable-exists", "(all obligations except C17's) exists() is true only for a stored entry; with INV and the soundness "
         "corollary the wrapped evaluatable then evaluates successfully under the current options")
T.assume("B-sound", "a cache backend returns from get() only a value previously set() for the same fingerprint, raises only "
         "CacheGetFailure from get() and nothing from exists()/set() (besides what computing the fingerprint raises)")


def sound_backend(ex, cache, meth, args, kwargs):
    e, o = args[0], args[1]
    et, ot = ex.as_ev(e), ex.as_opt(o)
    ct = ex.as_ev(cache)
    uses_fp = z3.Function("cache_uses_fingerprint", T.Ev, T.B)(ct)   # a property of the backend, not of the call
    # a backend may compute evaluatable.fingerprint(options) (MemoryCache does): that calls keys() and may raise what keys raises
    if ex.fork(uses_fp):
        ex.event("call", "keys", et, ot)
        if not ex.fork(T.KSok(et, ot)):
            ex.do_raise(ExcSym(T.KSexc(et, ot), "EvaluationError"))
    ex.event("cache", meth, ct, et, ot, ex.as_val(args[2]) if meth == "set" else None)
    if meth == "exists":
        ex.n += 1
        b = z3.Bool(f"{ex.tag}!exists{ex.n}")
        if ex.config.get("cache_reliable_exists", True):
            # reliable backend: an entry exists only if it was stored; INV + soundness corollary then give the memo-free outcome
            if ex.fork(b):
                ex.assume(T.EVok(et, ot))
                return True
            return False
        return Sym("bool", b)
    if meth == "get":
        ex.n += 1
        if ex.fork(z3.Bool(f"{ex.tag}!hit{ex.n}")):
            # INV + soundness corollary: a stored value is the memo-free value for these options
            ex.assume(T.EVok(et, ot))
            computed = any(e[0] == "call" and e[1] == "evaluate" and e[2].eq(et) for e in ex.trace)
            ex.tags.append(("cache-hit", "after-compute" if computed else "first"))
            return Sym("val", T.EVval(et, ot))
        ci = ex.repo.find_class("CacheGetFailure")
        ex.do_raise(ex.new_obj(ci, [e, o, cache], {}))
    if meth == "set":
        return None
    raise Unsupported(f"cache method {meth}")


def set_events(p):
    return [e for e in p.trace if e[0] == "cache" and e[1] == "set"]
