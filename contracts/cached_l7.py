"""L7/L8 for Cached.evaluate/validate (C01 transparency, C02 effectiveness, C12 'never stored', C16 switches, C17 faulty backend).
The cache backend is used through its contract (contracts/cache_model.py); the ghost trace of every path is inspected."""
from __future__ import annotations

import z3

from pyvc import theory as T
from pyvc.values import *  # noqa
from pyvc.solve import VC
from .laws import Runs, base_noregion, O1, SELF, flat_events, unsupported

INNER = z3.Function("fld!Cached.evaluatable", T.Ev, T.Ev)(SELF)
CACHE = z3.Function("fld!Cached.cache", T.Ev, T.Ev)(SELF)


def flag_truthy_in(p):
    """does the path condition say caching is disabled by option?"""
    return [c for c in p.pc if "LABREA.CACHE" in str(c) and str(c).startswith("truthy(")]


def cache_flag_term(repo):
    """the evaluatable read by labrea.cache._cache_disabled (Option LABREA.CACHE.DISABLED with default Option LABREA.CACHE.DISABLE)"""
    from pyvc.symex import explore
    from .laws import temp_contract
    cache = repo.module("cache")
    fn = cache.functions["_cache_disabled"]

    def run(ex):
        req = Obj(cache.classes["CacheExistsRequest"], {"options": Sym("opt", O1)}, z3.Const("req", T.Ev))
        ex.pubstack.append(("<harness>", "<harness>"))      # the flag Option is a temporary used through its class contract
        return ex.call(PyFunc(fn, cache), [req], {})
    ps = explore(repo, run, tag="fl", config={"abstract_classes": ("Option",), "temp_contract": temp_contract})
    for p in ps:
        if p.kind == "ok" and isinstance(p.value, Sym) and p.value.kind == "val":
            return p.value.term      # EVval(<flag evaluatable>, o)
    return None


def build(repo, faulty=False, label="L7"):
    ci = repo.module("cache").classes["Cached"]
    R = Runs(repo, ci, {"cache_reliable_exists": not faulty})
    ps = R.paths("evaluate", 1)
    u = unsupported(ps)
    if u:
        return [], [], [("Cached.evaluate", sorted(set(u)))]
    hyp = base_noregion(ci)
    vcs, syn = [], []
    for i, p in enumerate(ps):
        evs = list(flat_events(p.trace))
        sets = [e for e in evs if e[0] == "cache" and e[1] == "set"]
        inner_calls = [e for e in evs if e[0] == "call" and e[1] == "evaluate" and e[2].eq(INNER)]
        backend = [e for e in evs if e[0] == "cache"]
        g = f"Cached:{label}"
        if p.kind == "ok":
            kind, t = p.value
            goal = z3.And(T.EVok(INNER, O1), t == T.EVval(INNER, O1)) if kind == "val" else z3.BoolVal(False)
            vcs.append(VC(f"Cached:{label}:transparent#{i}", hyp + p.pc + p.defs, goal, {"law": label, "cls": "Cached"}))
        else:
            vcs.append(VC(f"Cached:{label}:fails-only-if-plain-fails#{i}", hyp + p.pc + p.defs, z3.Not(T.EVok(INNER, O1)), {"law": label, "cls": "Cached"}))
            syn.append({"name": f"Cached:{label}:nothing-stored-on-failure#{i}", "ok": not sets, "detail": str(sets[:1]), "group": g})
        for j, e in enumerate(sets):
            _, _, c, et, ot, v = e
            goal = z3.And(T.EVok(INNER, O1), v == T.EVval(INNER, O1), et == INNER, ot == O1, c == CACHE)
            vcs.append(VC(f"Cached:{label}:stores-the-memo-free-value#{i}.{j}", hyp + p.pc + p.defs, goal, {"law": label, "cls": "Cached"}))
        syn.append({"name": f"Cached:{label}:inner-evaluated-at-most-once#{i}", "ok": len(inner_calls) <= 1, "detail": "", "group": g})
        hit = any(t[0] == "cache-hit" and t[1] == "first" for t in p.tags)
        if hit and p.kind == "ok" and not faulty:
            syn.append({"name": f"Cached:{label}:hit-runs-nothing#{i}", "ok": not inner_calls and not sets, "detail": "", "group": g})
        # C16(b): when the LABREA.CACHE.* switch is truthy no backend call is made and the inner evaluatable is evaluated
        if flag_truthy_in(p):
            syn.append({"name": f"Cached:{label}:disabled-by-option-touches-no-backend#{i}", "ok": not backend and (len(inner_calls) == 1), "detail": str(backend[:1]), "group": g})
    # C16(b)/C10: with the cache switched off by option NO path of evaluate/validate may reach the backend
    flagval = cache_flag_term(repo)
    if flagval is not None and not faulty:
        for meth in ("evaluate", "validate"):
            for i, p in enumerate(R.paths(meth, 1)):
                if p.kind == "unsupported":
                    continue
                if any(e[0] == "cache" for e in flat_events(p.trace)):
                    vcs.append(VC(f"Cached:{label}:no-backend-call-when-switched-off:{meth}#{i}", hyp + p.pc + p.defs + [T.truthy(flagval)], z3.BoolVal(False),
                                  {"law": label, "cls": "Cached"}))
    # validate: skips validation only on an existing entry (C10)
    pv = R.paths("validate", 1)
    if not unsupported(pv):
        for i, p in enumerate(pv):
            evs = list(flat_events(p.trace))
            inner_v = [e for e in evs if e[0] == "call" and e[1] == "validate" and e[2].eq(INNER)]
            exists_true = any(str(c).endswith("exists" + str(c).split("exists")[-1]) and not str(c).startswith("Not(") and "!exists" in str(c) for c in p.pc)
            if p.kind == "ok" and not inner_v and not faulty:
                vcs.append(VC(f"Cached:{label}:validate-skipped-only-on-entry#{i}", hyp + p.pc + p.defs, T.EVok(INNER, O1), {"law": label, "cls": "Cached"}))
    return vcs, syn, []
