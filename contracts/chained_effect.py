"""ChainedEffect (the effect every Dataset wraps its effects in): specification against its real validate / transform / explain bodies, members by contract.
  validate  passes iff EVERY member validates (so a dataset whose later effect cannot run does not validate: C10, C06 via coalesce);
  transform applies every member, in order, to the same value and options, and fails iff some member fails (the first such);
  explain   is the union of the members' explanations."""
from __future__ import annotations

import z3

from pyvc import theory as T
from pyvc.values import *  # noqa
from pyvc.symex import explore, litkey_facts
from pyvc.solve import VC
from .laws import FN_CONTRACTS, O1, SELF, flat_events

V = z3.Const("v!ce", T.Val)


def build(repo):
    vcs, und = [], []
    ci = repo.module("computation").classes.get("ChainedEffect")
    if ci is None:
        return [], [("ChainedEffect", ["not found"])]
    n = z3.Function("fld!ChainedEffect.effects#n", T.Ev, T.I)(SELF)
    at = z3.Function("fld!ChainedEffect.effects#at", T.Ev, T.I, T.Ev)
    i, j = z3.Consts("i!ce j!ce", T.I)
    rng = lambda x: z3.And(x >= 0, x < n)     # noqa
    hyp = T.base_axioms() + litkey_facts()
    m = {"law": "spec", "cls": "ChainedEffect"}
    allv = z3.ForAll([i], z3.Implies(rng(i), T.VLok(at(SELF, i), O1)))
    allt = z3.ForAll([i], z3.Implies(rng(i), T.TFok(at(SELF, i), V, O1)))
    allx = z3.ForAll([i], z3.Implies(rng(i), T.EXok(at(SELF, i), O1)))
    k = z3.Const("k!ce", T.Key)
    for meth, extra, allok in (("validate", [], allv), ("transform", [Sym("val", V)], allt), ("explain", [], allx)):
        def run(ex, meth=meth, extra=extra):
            s = ex.sym_self(ci)
            r = ex.call(ex.getattr(s, meth), extra + [Sym("opt", O1)], {})
            return ("kset", ex.kset_term(r)) if isinstance(r, KSetV) else ("none", None)
        ps = explore(repo, run, tag="ce", config={"abstract_classes": (), "fn_contracts": FN_CONTRACTS})
        u = sorted({p.value for p in ps if p.kind == "unsupported"})
        if u:
            und.append((f"ChainedEffect.{meth}", u))
            continue
        for idx, p in enumerate(ps):
            pre = hyp + p.pc + p.defs
            if p.kind == "ok":
                goal = allok
                if meth == "explain":
                    S = p.value[1]
                    goal = z3.And(allok, z3.ForAll([k], z3.IsMember(k, S) == z3.Exists([i], z3.And(rng(i), z3.IsMember(k, T.EXset(at(SELF, i), O1))))))
                vcs.append(VC(f"ChainedEffect:spec:{meth}-returns-only-when-every-member-does#{idx}", pre, goal, m))
                if meth == "transform":
                    # every member is applied to the SAME value and options, in order (events of the generic iteration)
                    evs = [e for e in flat_events(p.trace) if e[0] == "call" and e[1] == "transform"]
                    same = all(len(e) >= 5 and e[3].eq(O1) and e[4].eq(V) for e in evs) if evs else True
                    vcs.append(VC(f"ChainedEffect:spec:transform-passes-the-same-value-and-options#{idx}", [], z3.BoolVal(bool(same)), m))
            else:
                vcs.append(VC(f"ChainedEffect:spec:{meth}-fails-only-when-a-member-fails#{idx}", pre, z3.Not(allok), m))
    return vcs, und
