"""ChainedEffect (the effect every Dataset wraps its effects in): specification against its real validate / transform / explain bodies, members by contract.
  validate  passes iff EVERY member validates (so a dataset whose later effect cannot run does not validate: C10, C06 via coalesce);
  transform applies every member, in order, to the same value and options, and fails iff some member fails (the first such);
  explain   is the union of the members' explanations."""
from __future__ import annotations

import z3

from pyvc import theory as T
from pyvc.values import *  # noqa
from pyvc.symex import explore, litkey_facts
from pyvc.solve import VC
from .laws import FN_CONTRACTS, O1, SELF, flat_events

V = z3.Const("v!ce", T.Val)


def build(repo):
    vcs, und = [], []
    ci = repo.module("computation").classes.get("ChainedEffect")
    if ci is None:
        return [], [("ChainedEffect", ["not found"])]
    n = z3.Function("fld!ChainedEffect.effects#n", T.Ev, T.I)(SELF)
    at = z3.Function("fld!ChainedEffect.effects#at", T.Ev, T.I, T.Ev)
    i, j = z3.Consts("i!ce j!ce", T.I)
    rng = lambda x: z3.And(x >= 0, x < n)     # noqa
    hyp = T.base_axioms() + litkey_facts()
    m = {"law": "spec", "cls": "ChainedEffect"}
    allv = z3.ForAll([i], z3.Implies(rng(i), T.VLok(at(SELF, i), O1)))
    allt = z3.ForAll([i], z3.Implies(rng(i), T.TFok(at(SELF, i), V, O1)))
    allx = z3.ForAll([i], z3.Implies(rng(i), T.EXok(at(SELF, i), O1)))
    k = z3.Const("k!ce", T.Key)
    for meth, extra, allok in (("validate", [], allv), ("transform", [Sym("val", V)], allt), ("explain", [], allx)):
        def run(ex, meth=meth, extra=extra):
            s = ex.sym_self(ci)
            r = ex.call(ex.getattr(s, meth), extra + [Sym("opt", O1)], {})
            return ("kset", ex.kset_term(r)) if isinstance(r, KSetV) else ("none", None)
        ps = explore(repo, run, tag="ce", config={"abstract_classes": (), "fn_contracts": FN_CONTRACTS})
        u = sorted({p.value for p in ps if p.kind == "unsupported"})
        if u:
            und.append((f"ChainedEffect.{meth}", u))
            continue
        for idx, p in enumerate(ps):
            pre = hyp + p.pc + p.defs
            if p.kind == "ok":
                goal = allok
                if meth == "explain":
                    S = p.value[1]
                    goal = z3.And(allok, z3.ForAll([k], z3.IsMember(k, S) == z3.Exists([i], z3.And(rng(i), z3.IsMember(k, T.EXset(at(SELF, i), O1))))))
                vcs.append(VC(f"ChainedEffect:spec:{meth}-returns-only-when-every-member-does#{idx}", pre, goal, m))
                if meth == "transform":
                    # every member is applied to the SAME value and options, in order (events of the generic iteration)
                    evs = [e for e in flat_events(p.trace) if e[0] == "call" and e[1] == "transform"]
                    same = all(len(e) >= 5 and e[3].eq(O1) and e[4].eq(V) for e in evs) if evs else True
                    vcs.append(VC(f"ChainedEffect:spec:transform-passes-the-same-value-and-options#{idx}", [], z3.BoolVal(bool(same)), m))
            else:
                vcs.append(VC(f"ChainedEffect:spec:{meth}-fails-only-when-a-member-fails#{idx}", pre, z3.Not(allok), m))
    v2, u2 = callback_effect(repo)
    return vcs + v2, und + u2


def callback_effect(repo):
    """CallbackEffect: validate/explain are those of the callback expression; transform evaluates the callback under the given options and applies the
    resulting function to the value exactly once.  LogEffect: validates always, explains nothing, transform issues exactly one LogRequest."""
    vcs, und = [], []
    ci = repo.module("computation").classes.get("CallbackEffect")
    m = {"law": "spec", "cls": "CallbackEffect"}
    hyp = T.base_axioms() + litkey_facts()
    if ci is not None:
        cb = z3.Function("fld!CallbackEffect.callback", T.Ev, T.Ev)(SELF)
        for meth, extra in (("validate", []), ("explain", []), ("transform", [Sym("val", V)])):
            def run(ex, meth=meth, extra=extra):
                s = ex.sym_self(ci)
                r = ex.call(ex.getattr(s, meth), extra + [Sym("opt", O1)], {})
                return ("kset", ex.kset_term(r)) if isinstance(r, KSetV) else ("none", None)
            ps = explore(repo, run, tag="cb", config={"abstract_classes": (), "fn_contracts": FN_CONTRACTS})
            u = sorted({p.value for p in ps if p.kind == "unsupported"})
            if u:
                und.append((f"CallbackEffect.{meth}", u))
                continue
            a = T.pack(T.mkseq(z3.IntVal(1), z3.Store(z3.K(T.I, T.DFLT), 0, V)), T.NOKW)
            for idx, p in enumerate(ps):
                pre = hyp + p.pc + p.defs
                if meth == "validate":
                    goal = T.VLok(cb, O1) if p.kind == "ok" else z3.Not(T.VLok(cb, O1))
                elif meth == "explain":
                    goal = z3.And(T.EXok(cb, O1), p.value[1] == T.EXset(cb, O1)) if p.kind == "ok" else z3.Not(T.EXok(cb, O1))
                else:
                    okc = z3.And(T.EVok(cb, O1), T.call_ok(T.EVval(cb, O1), a))
                    goal = okc if p.kind == "ok" else z3.Not(okc)
                    applies = [e for e in flat_events(p.trace) if e[0] == "apply"]
                    if p.kind == "ok":
                        vcs.append(VC(f"CallbackEffect:spec:transform-applies-the-callback-once#{idx}", [], z3.BoolVal(len(applies) == 1), m))
                vcs.append(VC(f"CallbackEffect:spec:{meth}#{idx}", pre, goal, m))
    li = repo.module("logging").classes.get("LogEffect")
    if li is not None:
        m2 = {"law": "spec", "cls": "LogEffect"}
        for meth, extra in (("validate", []), ("explain", []), ("transform", [Sym("val", V)])):
            def run(ex, meth=meth, extra=extra):
                s = ex.sym_self(li)
                r = ex.call(ex.getattr(s, meth), extra + [Sym("opt", O1)], {})
                return ("kset", ex.kset_term(r)) if isinstance(r, KSetV) else ("none", None)
            ps = explore(repo, run, tag="le", config={"abstract_classes": (), "fn_contracts": FN_CONTRACTS})
            u = sorted({p.value for p in ps if p.kind == "unsupported"})
            if u:
                und.append((f"LogEffect.{meth}", u))
                continue
            for idx, p in enumerate(ps):
                if meth in ("validate", "explain"):
                    good = p.kind == "ok" and (meth == "validate" or True)
                    goal = z3.BoolVal(bool(good))
                    pre = []
                    if meth == "explain" and p.kind == "ok":
                        k = z3.Const("k!le", T.Key)
                        pre, goal = hyp + p.pc + p.defs, z3.ForAll([k], z3.Not(z3.IsMember(k, p.value[1])))
                    vcs.append(VC(f"LogEffect:spec:{meth}-always-succeeds{'-with-no-keys' if meth == 'explain' else ''}#{idx}", pre, goal, m2))
                else:
                    reqs = [e for e in flat_events(p.trace) if e[0] == "req" and "LogRequest" in str(e[1])]
                    vcs.append(VC(f"LogEffect:spec:transform-issues-one-log-request#{idx}", [], z3.BoolVal(len(reqs) == 1), m2))
    return vcs, und
