"""Per-class interface-law obligations, generated and discharged one class per worker process."""
from __future__ import annotations

import os
from concurrent.futures import ProcessPoolExecutor

import z3

from pyvc import solve
from pyvc.extract import Repo
from pyvc.solve import VC, Result
from .common import class_hashes

# classes whose four interface methods are within the verifier's reach today
READY = ["Value", "Apply", "Bind", "Switch", "Overloaded", "CaseWhen", "Coalesce", "Iter", "EvaluatableArgs", "EvaluatableKwargs",
         "EvaluatableArguments", "FunctionApplication", "PartialApplication", "PipelineStep", "Pipeline", "Logged", "Computation",
         "WithOptions", "Cached", "Option", "_AllOptions", "Template", "Map"]
# private helper classes reached only by inlining from the class that builds them (their contract is their body)
INLINED_ONLY = ["_DependsOn"]


def _work(args):
    src, cname, laws, timeout_ms = args
    solve.LOCAL = True
    from . import laws as L
    repo = Repo(src)
    ci = repo.find_class(cname)
    if ci is None:
        return cname, [], [(cname, ["class not found in the source"])], [], {}
    vcs, undecided = L.law_vcs(repo, ci, [l for l in laws if l not in ("L10", "C05")]) if any(l not in ("L10", "C05") for l in laws) else ([], [])
    if "C05" in laws:
        from . import spec_c05
        v2, u2 = spec_c05.spec_vcs(repo, ci)
        vcs += v2
        undecided += u2
    syntactic = []
    if "L10" in laws:
        syntactic = L.l10_obligations(repo, ci, L.Runs(repo, ci))
    sanity = [VC(f"{cname}:sanity:hypotheses-consistent", L.base(ci) , z3.BoolVal(False), {"law": "sanity", "cls": cname}, expect="not-unsat")]
    # reachability behind the path conditions: the hypotheses together with SOME returning path of every method must not be refutable
    # (an executor that produced contradictory path facts would make every obligation of that method vacuously true)
    if any(l not in ("L10", "C05") for l in laws):
        R = L.Runs(repo, ci)
        R.cache = getattr(L, "_LAST_RUNS_CACHE", {}).get(cname, R.cache)
        for meth in ("evaluate", "validate", "keys", "explain"):
            if meth == "evaluate" and cname in L.NO_EVALUATE:
                continue
            try:
                ps = R.paths(meth, 1)
            except Exception:  # noqa
                continue
            oks = [p for p in ps if p.kind == "ok"]
            if oks:
                sanity.append(VC(f"{cname}:sanity:{meth}-has-a-feasible-returning-path", L.base(ci) + [z3.Or(*[L.pathcond(p) for p in oks])], z3.BoolVal(False),
                                 {"law": "sanity", "cls": cname}, expect="not-unsat"))
    res = solve.discharge_split(vcs + sanity, timeout_ms=timeout_ms, second_opinion=True)
    fns, hashes = class_hashes(repo, ci)
    import hashlib
    hashes = dict(hashes)
    hashes["labrea/*.py (whole tree: helpers and handlers are inlined)"] = hashlib.sha256(
        "".join(m.source for _, m in sorted(repo.modules.items())).encode()).hexdigest()[:16]
    plain = [(r.name, r.status, r.seconds, r.backend, r.expect, r.meta, r.detail) for r in res]
    regions = [(ent[0], ent[1]) for ent in L.REGIONS.get(cname, [])]
    return cname, plain, undecided, fns, {"hashes": hashes, "regions": regions, "syntactic": syntactic}


def run(repo, laws, classes=None, timeout_ms=None):
    classes = classes or READY
    timeout_ms = timeout_ms or solve.TIMEOUT_MS
    jobs = [(repo.src, c, tuple(laws), timeout_ms) for c in classes]
    out = {"results": [], "sanity": [], "undecided": [], "functions": [], "hashes": {}, "group_hashes": {}, "regions": {}, "syntactic": []}
    if True:
        for cname, plain, undecided, fns, extra in solve.robust_map(_work, jobs, min(16, len(jobs))):
            for name, status, secs, backend, expect, meta, detail in plain:
                r = Result(name, status, secs, backend, expect, meta, detail)
                (out["sanity"] if expect != "unsat" else out["results"]).append(r)
            out["undecided"] += undecided
            out["syntactic"] += extra.get("syntactic", [])
            out["functions"] += fns
            out["hashes"].update(extra.get("hashes", {}))
            for law in laws:
                out["group_hashes"][f"{cname}:{law}"] = extra.get("hashes", {})
            if extra.get("regions"):
                out["regions"][cname] = extra["regions"]
    return out


def witness_fn(tier):
    def witness(group, names, seed):
        from harness import lawsearch
        budget = 150 if tier == "quick" else 1500
        if group.endswith((":frame", ":globals-frame")):
            return lawsearch.hidden_state_search(seed, 25 if tier == "quick" else 250)
        if group.startswith(("undecided:Cacheable", "Cacheable:")):
            for cls in ("Dataset", "Option", "Switch", "FunctionApplication", "WithOptions", "Cached"):
                w = lawsearch.search(cls, "FP", seed, budget)
                if w:
                    return w
            return None
        if group.startswith("undecided:"):
            cls = group.split(":", 1)[1].split(".")[0]
            for law in ("L1", "L2", "L3", "L4a", "L5", "L5d", "L6", "L6k", "L6v", "C05", "C08", "C06"):
                w = lawsearch.search(cls, law, seed, budget)
                if w:
                    return w
            return None
        cls, law = group.split(":")[:2]
        return lawsearch.search(cls, law, seed, budget)
    return witness


# classes whose interface methods are NOT within the verifier's reach today: a bounded check of the same executable laws on the real
# code stands in (labelled bounded, never counted as proved)
BOUNDED = ["Map"]
# Map's interface laws are proved against the contract of Map._iter; what that contract does not say (the shape of the per-combination expressions,
# i.e. the C05 refinement) stays a bounded check on the real code
# (the other native laws keep running on Map recipes as a bounded validation of that contract and of assumption A-map-explain)
BOUNDED_LAWS = {}
NATIVE_LAWS = {"L1": "L1", "L2": "L2", "L3": "L3", "L4a": "L4a", "L4t": None, "L5": "L5", "L5b": None, "L5d": "L5d", "L6": "L6", "L6k": "L6k", "L6v": "L6v", "C05": "C05", "L10": None}


def bounded_standin(laws, seed, tier):
    from harness import lawsearch
    out = {"classes": BOUNDED, "bounds": "recipes in harness/lawsearch.py RECIPES x %d dictionaries (15 fixed + random over 11 keys, nesting depth 2)",
           "cases": 0, "witnesses": []}
    budget = 40 if tier == "quick" else 400
    out["bounds"] = out["bounds"] % (15 + budget)
    for cls in BOUNDED:
        for law in laws:
            nl = NATIVE_LAWS.get(law)
            if nl is None or (cls in BOUNDED_LAWS and law not in BOUNDED_LAWS[cls]):
                continue
            w = lawsearch.search(cls, nl, seed, budget)
            out["cases"] += len(lawsearch.RECIPES.get(cls, [])) * (15 + budget)
            if w is not None:
                out["witnesses"].append((f"{cls}:{law}(bounded)", w))
    return out


def bundle(repo, tier, seed, laws, classes=None, extra_vcs=(), extra_sanity=(), explanation="", bounded=True, crosscheck=False):
    r = run(repo, laws, classes)
    regions = [f"{c}: {fid} {text}" for c, ents in r["regions"].items() for fid, text in ents]
    from harness import opt_validate
    vfails, vcounts = opt_validate.validate(seed, depth=2, sample=300 if tier == "quick" else 8000)
    if vfails:
        raise RuntimeError(f"OptTheory clause failed its bounded validation against confectioner: {vfails[0]!r} - no proof using it can be trusted")
    from harness import tk_validate
    tkf, tkn = tk_validate.validate()
    if tkf:
        raise RuntimeError(f"assumed contract of resolve/_templated_keys failed its bounded validation on the real functions: {tkf[0]!r}")
    tpn = 0
    if classes is None or "Template" in classes:
        from harness import tp_validate
        tpf, tpn = tp_validate.validate(full=(tier != "quick"), quick=(tier == "quick"))
        if tpf:
            raise RuntimeError(f"assumed clause of the Template theory (OptTheory.resolve.params / .escape / P-str.param) failed its bounded validation on the real functions: {tpf[0]!r}")
    xc = {"classes": [], "checked": 0}
    if crosscheck:
        from harness import crosscheck as xcheck
        for c in xcheck.CLASSES:
            if classes is None or c in (classes or READY):
                mm, nn = xcheck.crosscheck(c, seed, 4 if tier == "quick" else 40, repo)
                xc["classes"].append(c)
                xc["checked"] += nn
                for m in mm:
                    r["undecided"].append((f"{m[0]}.{m[1]}", [f"ENGINE cross-check mismatch against CPython: {m[3]}"]))
    bs = bounded_standin(laws, seed, tier) if bounded else None
    if classes is None or "Map" in classes:
        from . import map_iter
        from .common import fn_hashes
        msyn, mund = map_iter.obligations(repo)
        r["syntactic"] += msyn
        r["undecided"] += mund
        mf, mh = fn_hashes(repo, ["labrea.iterable:Map._iter", "labrea.iterable:Map._iterate_over_options", "labrea.iterable:Map._create_option_set"])
        r["functions"] += mf
        r["hashes"].update(mh)
        for law in laws:
            r["group_hashes"].setdefault("Map._iter:contract", {}).update(mh)
    return {
        "bounded": [{k: v for k, v in bs.items() if k != "witnesses"}] if bs else [], "bounded_witnesses": bs["witnesses"] if bs else [],
        "vcs": list(extra_vcs), "sanity": list(extra_sanity), "results": r["results"], "sanity_results": r["sanity"],
        "undecided": r["undecided"], "functions": r["functions"], "hashes": r["hashes"], "group_hashes": r["group_hashes"],
        "syntactic": r["syntactic"], "witness": witness_fn(tier), "level": "proof",
        "trusted_base": ["interface laws assumed for children (A-ext); OptTheory clauses for confectioner (assumed, bounded-validated)",
                         "region complements of recorded findings: " + ("; ".join(regions) or "none")],
        "assumptions": ["classes under contract: " + ", ".join(classes or READY),
                        "Map: the interface laws are proved against the contract of Map._iter (laws.map_iter_contract; structural obligations Map._iter:contract; assumptions A-pure.ctor, A-map-explain); "
                        "the shape of the per-combination expressions (C05 refinement of Map) is a bounded check on the real code only",
                        "classes NOT under contract (out of the verifier's reach today): Namespace, _DatasetClassMeta (no claim)",
                        "private helper classes are verified by inlining only: " + ", ".join(INLINED_ONLY)] + [f"proved outside region: {x}" for x in regions],
        "explanation": explanation,
        "engine_crosscheck": xc,
        "samples": [{"resolve_and_templated_keys_contract_validation": "clauses of theory.resolve_axioms / tk_contract_axioms evaluated on the real confectioner.resolve and labrea.option._templated_keys",
                     "cases": tkn, "failures": 0},
                    {"template_theory_validation": "clauses of theory.template_axioms / escape_axioms evaluated on the real confectioner.resolve/mix, re and str (harness/tp_validate.py)", "cases": tpn, "failures": 0},
                    {"opt_theory_validation": "every OptTheory clause evaluated with has/get/mix/... interpreted by the real confectioner", "cases": vcounts, "failures": 0}],
    }
