"""C05, collections: evaluatable_list / tuple / set / dict (DatasetList, ...) build exactly `Iter(members, in order).apply(<constructor>)`; for dict the
members are the pairs Iter(Value(key_i), value_i) of the dictionary as it is when the collection is BUILT (a snapshot: nothing of the caller's dict is kept).
With the proved specifications of Iter (children's values in order) and Apply this is "collections keep order" of the statement.  The real bodies are run
symbolically over an argument list / dictionary of arbitrary length."""
from __future__ import annotations

import z3

from pyvc import theory as T
from pyvc.values import *  # noqa
from pyvc.symex import explore
from .laws import FN_CONTRACTS, flat_events


def obligations(repo):
    out, und = [], []
    mod = repo.module("collections")

    def ob(fname, name, ok, detail=""):
        out.append({"name": f"{fname}:C05:{name}", "ok": bool(ok), "detail": str(detail)[:160], "group": "collections:C05"})
    EAT = z3.Function("e#at", T.I, T.Ev)
    KF, VF = z3.Function("c#key", T.I, T.Val), z3.Function("c#val", T.I, T.Ev)
    i = z3.Int("i!probe")
    for fname, ctor in (("evaluatable_list", "list"), ("evaluatable_tuple", "tuple"), ("evaluatable_set", "set"), ("evaluatable_dict", "dict")):
        fn = mod.functions.get(fname)
        if fn is None:
            und.append((fname, ["not found"]))
            continue

        def run(ex, fname=fname, fn=fn):
            if fname == "evaluatable_dict":
                n = z3.Const("c#n", T.I)
                ex.define(n >= 0)
                m = MapV(n, lambda x: Sym("val", KF(x)), lambda x: Sym("ev", VF(x)))
                return ex.call_pyfunc(PyFunc(fn, mod), [m], {})
            n = z3.Const("e#n", T.I)
            ex.define(n >= 0)
            return ex.call_pyfunc(PyFunc(fn, mod), [("*", SeqV(n, lambda x: Sym("ev", EAT(x))))], {})
        ps = explore(repo, run, tag="co", config={"abstract_classes": (), "fn_contracts": FN_CONTRACTS})
        u = sorted({p.value for p in ps if p.kind == "unsupported"})
        if u:
            und.append((fname, u))
            continue
        ob(fname, "always-returns", ps and all(p.kind == "ok" for p in ps), [p.kind for p in ps])
        for idx, p in enumerate(ps):
            if p.kind != "ok":
                continue
            evs = [e for e in flat_events(p.trace) if e[0] in ("call", "apply", "req", "cache")]
            ob(fname, f"evaluates-nothing#{idx}", not evs, evs[:2])
            a = p.value
            good = isinstance(a, Obj) and a.clsname == "Apply"
            it = a.fields.get("evaluatable") if good else None
            f = a.fields.get("func") if good else None
            good = good and isinstance(it, Obj) and it.clsname == "Iter" and isinstance(f, Obj) and f.clsname == "Value" \
                and isinstance(f.fields.get("value"), ClassRef) and f.fields["value"].name == ctor
            ob(fname, f"is-Iter-of-the-members-applied-to-{ctor}#{idx}", good, repr(a))
            if not good:
                continue
            seq = it.fields.get("evaluatables")
            if fname != "evaluatable_dict":
                e = seq.elem(i) if isinstance(seq, SeqV) else None
                ob(fname, f"members-in-order#{idx}", isinstance(seq, SeqV) and str(seq.n) == "e#n" and isinstance(e, Sym) and e.term.eq(EAT(i)), repr(seq))
            else:
                e = seq.elem(i) if isinstance(seq, SeqV) else None
                okp = isinstance(seq, SeqV) and str(seq.n) == "c#n" and isinstance(e, Obj) and e.clsname == "Iter"
                if okp:
                    pair = e.fields.get("evaluatables")
                    items = pair.items if isinstance(pair, (PyTuple, PyList)) else None
                    okp = items is not None and len(items) == 2 and isinstance(items[0], Obj) and items[0].clsname == "Value" \
                        and isinstance(items[0].fields.get("value"), Sym) and items[0].fields["value"].term.eq(KF(i)) \
                        and isinstance(items[1], Sym) and items[1].term.eq(VF(i))
                ob(fname, f"members-are-the-(Value(key),-value)-pairs-of-the-dictionary-at-construction#{idx}", okp, repr(e))
    return out, und
