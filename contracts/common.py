from __future__ import annotations


def fn_hashes(repo, quals):
    """quals: 'labrea.mod:Class.method' or 'labrea.mod:function' -> ([{name, sha256_16}], {name: sha})"""
    out, hs = [], {}
    for q in quals:
        modname, rest = q.split(":")
        m = repo.modules.get(modname)
        node = None
        if m is not None:
            if "." in rest:
                c, f = rest.split(".", 1)
                ci = m.classes.get(c)
                if ci is not None:
                    node = ci.methods.get(f)
            else:
                node = m.functions.get(rest)
        sha = repo.sha(m, node) if node is not None else "absent"
        out.append({"name": q, "sha256_16": sha})
        hs[q] = sha
    return out, hs


def class_hashes(repo, ci, methods=("evaluate", "validate", "keys", "explain")):
    quals = []
    for meth in methods:
        owner, m = repo.find_method(ci, meth)
        if m is not None:
            quals.append(f"{owner.module.name}:{owner.name}.{meth}")
    return fn_hashes(repo, quals)


def history_induction(repo=None):
    """the step from one-operation obligations to all histories, checked by Lean 4 (lean/Histories.lean; no labrea-specific content, no sorry/axiom).
    returns (syntactic obligations, undecided)"""
    import os
    import shutil
    import subprocess
    root = os.path.dirname(os.path.dirname(os.path.abspath(__file__)))
    path = os.path.join(root, "lean", "Histories.lean")
    lean = shutil.which("lean")
    if lean is None or not os.path.exists(path):
        return [], [("lean/Histories.lean", ["lean is not on PATH" if lean is None else "file missing"])]
    src = open(path).read()
    body = src.split("-/", 1)[-1]
    clean = not any(w in body for w in ("sorry", "axiom ", "admit", "native_decide", "unsafe "))
    try:
        r = subprocess.run([lean, path], capture_output=True, text=True, timeout=300, cwd=os.path.dirname(path))
        ok, detail = r.returncode == 0 and "error" not in (r.stdout + r.stderr), (r.stdout + r.stderr)[:200]
    except Exception as e:  # noqa
        return [], [("lean/Histories.lean", [f"lean did not run: {e}"])]
    out = []
    for thm in ("inv_of_reach", "good_along_histories", "stored_stays_stored"):
        out.append({"name": f"Histories:lean:{thm}", "ok": bool(ok and clean and f"theorem {thm}" in src), "detail": detail or "checked by lean 4 (kernel)", "group": "Histories:lean"})
    return out, []


import ast  # noqa: E402


def inline_lets(fn):
    """the function with single-assignment, single-use local names replaced by their defining expressions (named temporaries are immaterial to the
    obligations below); returns a new FunctionDef"""
    import copy
    fn = copy.deepcopy(fn)
    changed = True
    while changed:
        changed = False
        assigns = {}
        for n in ast.walk(fn):
            if isinstance(n, ast.Assign) and len(n.targets) == 1 and isinstance(n.targets[0], ast.Name):
                assigns.setdefault(n.targets[0].id, []).append(n)
            elif isinstance(n, (ast.AugAssign, ast.AnnAssign, ast.For, ast.With, ast.ExceptHandler, ast.NamedExpr)):
                for t in ast.walk(n.target if hasattr(n, "target") and n.target is not None else ast.Pass()):
                    if isinstance(t, ast.Name):
                        assigns.setdefault(t.id, []).extend([None, None])
                if isinstance(n, ast.ExceptHandler) and n.name:
                    assigns.setdefault(n.name, []).extend([None, None])
        params = {a.arg for a in fn.args.args + fn.args.kwonlyargs + fn.args.posonlyargs}
        for name, defs in assigns.items():
            if len(defs) != 1 or defs[0] is None or name in params:
                continue
            uses = [n for n in ast.walk(fn) if isinstance(n, ast.Name) and n.id == name and isinstance(n.ctx, ast.Load)]
            if len(uses) != 1:
                continue
            a = defs[0]

            class Sub(ast.NodeTransformer):
                def visit_Name(self, node):
                    if node.id == name and isinstance(node.ctx, ast.Load):
                        return copy.deepcopy(a.value)
                    return node

                def visit_Assign(self, node):
                    if node is a:
                        return None
                    return self.generic_visit(node)
            fn = Sub().visit(fn)
            ast.fix_missing_locations(fn)
            changed = True
            break
    return fn


def ast_match(pattern, node, binds=None):
    """structural match of `node` against the statement/expression `pattern` (source text); names starting with `_` in the pattern are metavariables bound
    consistently to Name identifiers (so the obligation does not depend on how locals are spelled).  Returns the bindings or None."""
    pat = ast.parse(pattern).body[0]
    if isinstance(pat, ast.Expr) and not isinstance(node, ast.Expr):
        pat = pat.value
    binds = dict(binds or {})

    def m(p, n):
        if isinstance(p, ast.Name) and p.id.startswith("_") and len(p.id) > 1:
            if not isinstance(n, ast.Name):
                return False
            if p.id in binds:
                return binds[p.id] == n.id
            binds[p.id] = n.id
            return True
        if type(p) is not type(n):
            return False
        for f in p._fields:
            if f in ("ctx", "type_comment", "lineno", "col_offset", "end_lineno", "end_col_offset", "kind"):
                continue
            a, b = getattr(p, f, None), getattr(n, f, None)
            if isinstance(a, list):
                if not isinstance(b, list) or len(a) != len(b) or not all(m(x, y) if isinstance(x, ast.AST) else x == y for x, y in zip(a, b)):
                    return False
            elif isinstance(a, ast.AST):
                if not isinstance(b, ast.AST) or not m(a, b):
                    return False
            elif a != b:
                return False
        return True
    return binds if m(pat, node) else None


def ast_find(pattern, tree, binds=None):
    """first node of `tree` matching `pattern` -> (node, bindings) or (None, None)"""
    for n in ast.walk(tree):
        b = ast_match(pattern, n, binds)
        if b is not None:
            return n, b
    return None, None
