from __future__ import annotations


def fn_hashes(repo, quals):
    """quals: 'labrea.mod:Class.method' or 'labrea.mod:function' -> ([{name, sha256_16}], {name: sha})"""
    out, hs = [], {}
    for q in quals:
        modname, rest = q.split(":")
        m = repo.modules.get(modname)
        node = None
        if m is not None:
            if "." in rest:
                c, f = rest.split(".", 1)
                ci = m.classes.get(c)
                if ci is not None:
                    node = ci.methods.get(f)
            else:
                node = m.functions.get(rest)
        sha = repo.sha(m, node) if node is not None else "absent"
        out.append({"name": q, "sha256_16": sha})
        hs[q] = sha
    return out, hs


def class_hashes(repo, ci, methods=("evaluate", "validate", "keys", "explain")):
    quals = []
    for meth in methods:
        owner, m = repo.find_method(ci, meth)
        if m is not None:
            quals.append(f"{owner.module.name}:{owner.name}.{meth}")
    return fn_hashes(repo, quals)
