"""Constructors store their arguments faithfully (C05/C01 anchor: the class laws and specifications are stated over the FIELDS of an expression object;
this ties the fields to what the user passed).  AST obligation over `__init__` of every class reaching the labrea ABCs: every `self.<field> = <expr>`
uses the constructor parameter of the same name (or the one named in RENAMES) and nothing else but whitelisted, order- and content-preserving
normalisers; no parameter is dropped."""
from __future__ import annotations

import ast

# callables that preserve order and content of what they wrap (or turn a plain value into the expression evaluating to it)
NORMALISERS = {"Evaluatable.ensure", "tuple", "list", "dict", "arguments", "EvaluatableArgs", "EvaluatableKwargs", "Value", "Option", "Template", "isinstance", "callable",
               "FunctionApplication", "Pipeline", "PipelineStep", "MISSING", "Evaluatable", "str", "getattr", "repr", "map", "threading.Lock", "_get_lock", "id", "Overloaded",
               "ChainedEffect", "MemoryCache", "Cache", "TypeError", "ValueError", "warnings.warn", "find_template_keys", "TEMPLATE_PARAM.match", "set", "sorted", "Effect", "CallbackEffect"}
# field <- parameter when the names differ (each checked by hand against the class docstring)
RENAMES = {
    ("FunctionApplication", "func"): {"_FunctionApplication__func", "__func"}, ("FunctionApplication", "arguments"): {"args", "kwargs"},
    ("PartialApplication", "func"): {"_PartialApplication__func", "__func"}, ("PartialApplication", "arguments"): {"args", "kwargs"},
    ("PartialApplication", "_repr"): {"_PartialApplication__func", "__func", "args", "kwargs"},
    ("Template", "params"): {"kwargs"}, ("Pipeline", "tail"): {"tail", "_Pipeline__tail", "__tail"}, ("Pipeline", "rest"): {"rest", "_Pipeline__rest", "__rest"},
    ("PipelineStep", "_name"): {"name", "step"}, ("Namespace", "_key"): {"key"}, ("Namespace", "_members"): {"members"}, ("Namespace", "_full"): {"key"},
    ("Namespace", "__doc__"): set(), ("Option", "__doc__"): {"doc"}, ("Overloaded", "_lock"): set(), ("MemoryCache", "_cache"): set(),
    ("Dataset", "_effects_disabled"): set(), ("Option", "default"): {"default", "default_factory"},
    ("Coalesce", "members"): {"__first", "__rest", "_Coalesce__first", "_Coalesce__rest"}, ("FunctionApplication", "_repr"): {"__func", "_FunctionApplication__func", "args", "kwargs"},
    ("PipelineStep", "_name"): {"_name", "name", "step"},
}
FILTERED_OK = set()        # (class, field) pairs whose constructor legitimately filters its argument: none today
SKIP = {"_DatasetClassMeta", "_DatasetClassMixin", "Interface", "Implementation"}       # metaclass protocol / covered elsewhere


def obligations(repo):
    out = []
    for m in repo.modules.values():
        for ci in m.classes.values():
            if ci.name in SKIP or "__init__" not in ci.methods:
                continue
            if not (ci.name in ("MemoryCache", "DatasetFactory", "_Auto", "Arguments") or any(repo.is_subclass(ci, b) for b in ("Evaluatable", "Effect", "Cache"))):
                continue
            from .common import inline_lets
            fn = inline_lets(ci.methods["__init__"])          # named temporaries are immaterial
            params = [a.arg for a in fn.args.posonlyargs + fn.args.args + fn.args.kwonlyargs][1:]
            if fn.args.vararg:
                params.append(fn.args.vararg.arg)
            if fn.args.kwarg:
                params.append(fn.args.kwarg.arg)
            stored, bad = set(), []
            field_ok = {}
            for n in ast.walk(fn):
                if not (isinstance(n, (ast.Assign, ast.AnnAssign)) and any(isinstance(t, ast.Attribute) and isinstance(t.value, ast.Name) and t.value.id == "self"
                                                                          for t in (n.targets if isinstance(n, ast.Assign) else [n.target]))):
                    continue
                if n.value is None:
                    continue
                for t in (n.targets if isinstance(n, ast.Assign) else [n.target]):
                    if not (isinstance(t, ast.Attribute) and isinstance(t.value, ast.Name) and t.value.id == "self"):
                        continue
                    fld = t.attr
                    allowed = RENAMES.get((ci.name, fld), {fld})
                    names = {x.id for x in ast.walk(n.value) if isinstance(x, ast.Name) and isinstance(x.ctx, ast.Load)}
                    locals_ = {x.id for c in ast.walk(n.value) if isinstance(c, (ast.comprehension,)) for x in ast.walk(c.target) if isinstance(x, ast.Name)}
                    locals_ |= {a.arg for l in ast.walk(n.value) if isinstance(l, ast.Lambda) for a in l.args.args}
                    calls = {ast.unparse(c.func) for c in ast.walk(n.value) if isinstance(c, ast.Call)}
                    used = (names & set(params))
                    stored |= used
                    foreign = used - allowed
                    unknown_calls = {c for c in calls if c not in NORMALISERS and not c.startswith("self.") and c.split(".")[0] not in locals_ and not c.endswith(".items")
                                     and not c.endswith(".keys") and not c.endswith(".values") and not c.endswith(".join") and not c.endswith(".__name__") and not c.endswith(".copy")}
                    free = names - set(params) - locals_ - {"self"} - {c.split(".")[0] for c in calls} - {"MISSING", "Any", "True", "False", "None", "Evaluatable"}
                    field_ok[fld] = field_ok.get(fld, False) or bool(used & allowed) or not allowed
                    if foreign:
                        bad.append(f"self.{fld} uses other parameters {sorted(foreign)}")
                    filt = [ast.unparse(c_) for c_ in ast.walk(n.value) if isinstance(c_, ast.comprehension) and c_.ifs]
                    if filt and (ci.name, fld) not in FILTERED_OK:
                        bad.append(f"self.{fld} drops elements ({filt[0][:50]})")
                    others = {x.attr for x in ast.walk(n.value) if isinstance(x, ast.Attribute) and isinstance(x.value, ast.Name) and x.value.id == "self" and x.attr != fld}
                    others -= {"_build_doc", "__class__"}
                    if others:
                        bad.append(f"self.{fld} depends on other fields {sorted(others)}")
                    if unknown_calls:
                        bad.append(f"self.{fld} goes through {sorted(unknown_calls)}")
                    if free - {"MISSING"}:
                        bad.append(f"self.{fld} uses {sorted(free)}")
            for fld, okf in field_ok.items():
                if not okf:
                    bad.append(f"self.{fld} is never assigned from its parameter ({sorted(RENAMES.get((ci.name, fld), {fld}))})")
            dropped = [p for p in params if p not in stored and not any(isinstance(x, ast.Name) and x.id == p for x in ast.walk(fn) if isinstance(x, ast.Name) and isinstance(x.ctx, ast.Load))]
            if dropped:
                bad.append(f"parameters never used: {dropped}")
            out.append({"name": f"{ci.name}.__init__:ctor:stores-its-arguments-faithfully", "ok": not bad, "detail": "; ".join(bad)[:200], "group": f"{ci.name}:ctor"})
    return out
