"""Structure of Dataset._composed and of the Dataset-deriving operations (C01/C02/C07/C08/C16 anchors).
The real property/method bodies are run symbolically; the obligations are structural facts about the objects they build."""
from __future__ import annotations

import z3

from pyvc import theory as T
from pyvc.values import *  # noqa
from pyvc.symex import explore
from .laws import Runs, SELF


def _is_field(v, cls, name):
    """v is exactly the (lazily created) field `name` of self"""
    t = getattr(v, "term", None)
    return t is not None and str(t) == f"fld!{cls}.{name}(self)"


def _same_seq(v, cls, name):
    if isinstance(v, SeqV):
        i = z3.Int("i!probe")
        e = v.elem(i)
        return str(v.n) == f"fld!{cls}.{name}#n(self)" and str(getattr(e, "term", "")) == f"fld!{cls}.{name}#at(self, i!probe)"
    return False


def tower_obligations(repo):
    out, undecided = [], []
    ds = repo.module("dataset").classes["Dataset"]

    def run(ex):
        s = ex.sym_self(ds)
        return ex.getattr(s, "_composed")
    paths = explore(repo, run, tag="tw", config={"abstract_classes": ()})
    u = sorted({p.value for p in paths if p.kind == "unsupported"})
    if u:
        return [], [("Dataset._composed", u)]

    def ob(name, ok, detail=""):
        out.append({"name": f"Dataset:tower:{name}", "ok": bool(ok), "detail": detail, "group": "Dataset:tower"})

    for n, p in enumerate(paths):
        tag = f"#{n}"
        if p.kind != "ok":
            ob(f"builds{tag}", False, f"_composed raised {p.value!r}")
            continue
        # construction evaluates nothing (C06)
        evs = [e for e in p.trace if e[0] in ("call", "apply", "req", "cache")]
        ob(f"no-evaluation-at-construction{tag}", not evs, str(evs[:3]))
        w0 = p.value
        ok0 = isinstance(w0, Obj) and w0.cls.name == "WithOptions" and w0.fields.get("force") is False and _is_field(w0.fields.get("options"), "Dataset", "default_options")
        ob(f"outermost=WithDefaultOptions(default_options){tag}", ok0)
        w1 = w0.fields.get("evaluatable") if ok0 else None
        ok1 = isinstance(w1, Obj) and w1.cls.name == "WithOptions" and w1.fields.get("force") is True and _is_field(w1.fields.get("options"), "Dataset", "options")
        ob(f"then=WithOptions(options, forced){tag}", ok1)
        c = w1.fields.get("evaluatable") if ok1 else None
        okc = isinstance(c, Obj) and c.cls.name == "Cached" and _is_field(c.fields.get("cache"), "Dataset", "cache")
        ob(f"then=Cached(self.cache){tag}", okc)
        lg = c.fields.get("evaluatable") if okc else None
        lvl = lg.fields.get("level") if isinstance(lg, Obj) else None
        okl = isinstance(lg, Obj) and lg.cls.name == "Logged" and isinstance(lvl, Builtin) and lvl.name == "logging.INFO" and lg.fields.get("log_first") is True
        ob(f"then=Logged(INFO) inside the cached region{tag}", okl)
        base = lg.fields.get("evaluatable") if okl else None
        disabled = any(str(x) == "fld!Dataset._effects_disabled(self)" for x in p.pc)
        enabled = any(str(x) == "Not(fld!Dataset._effects_disabled(self))" for x in p.pc)

        def is_calc(a):
            return (isinstance(a, Obj) and a.cls.name == "Apply" and _is_field(a.fields.get("evaluatable"), "Dataset", "overloads")
                    and _is_field(a.fields.get("func"), "Dataset", "callback"))
        if disabled:
            ob(f"effects-disabled: base=overloads.apply(callback){tag}", is_calc(base))
        elif enabled:
            okb = isinstance(base, Obj) and base.cls.name == "Computation" and is_calc(base.fields.get("evaluatable"))
            eff = base.fields.get("effect") if okb else None
            oke = isinstance(eff, Obj) and eff.cls.name == "ChainedEffect" and _same_seq(eff.fields.get("effects"), "Dataset", "effects")
            ob(f"effects-enabled: base=Computation(overloads.apply(callback), ChainedEffect(*effects)) inside the cached region{tag}", okb and oke)
        else:
            ob(f"effect toggle decides the base{tag}", False, "path condition does not mention _effects_disabled")
    return out, undecided


def derive_obligations(repo):
    """with_options / with_default_options: field-wise postcondition from the statement (same overloads, cache, effects, callback, toggle)"""
    out, undecided = [], []
    ds = repo.module("dataset").classes["Dataset"]
    Q = Sym("opt", z3.Const("Q", T.Opt))
    for meth, changed in (("with_options", "options"), ("with_default_options", "default_options")):
        def run(ex, meth=meth):
            s = ex.sym_self(ds)
            return ex.call(ex.getattr(s, meth), [Q], {})
        paths = explore(repo, run, tag="wd", config={"abstract_classes": ()})
        u = sorted({p.value for p in paths if p.kind == "unsupported"})
        if u:
            undecided.append((f"Dataset.{meth}", u))
            continue
        for n, p in enumerate(paths):
            def ob(name, ok, detail=""):
                out.append({"name": f"Dataset:{meth}:{name}#{n}", "ok": bool(ok), "detail": detail, "group": f"Dataset:{meth}"})
            r = p.value
            if p.kind != "ok" or not (isinstance(r, Obj) and r.cls.name == "Dataset"):
                ob("returns-a-dataset", False, repr(r))
                continue
            ob("new-object", not r.term.eq(SELF))
            ob("same-overloads", _is_field(r.fields.get("overloads"), "Dataset", "overloads"))
            ob("same-cache-object", _is_field(r.fields.get("cache"), "Dataset", "cache"))
            ob("same-effects", _same_seq(r.fields.get("effects"), "Dataset", "effects"))
            ob("same-callback", _is_field(r.fields.get("callback"), "Dataset", "callback"))
            ob("same-effect-toggle", str(getattr(r.fields.get("_effects_disabled"), "term", r.fields.get("_effects_disabled"))) == "fld!Dataset._effects_disabled(self)")
            other = "default_options" if changed == "options" else "options"
            ob(f"{other}-unchanged", _is_field(r.fields.get(other), "Dataset", other))
            newv = r.fields.get(changed)
            want = f"mix(fld!Dataset.{changed}(self), Q)"
            ob(f"{changed}=mix(own, given)", str(getattr(newv, "term", None)) == want, str(getattr(newv, "term", newv)))
            ob("self-not-modified", not any(e[0] == "store" and e[1].eq(SELF) for e in p.trace))
            ob("no-evaluation-at-construction", not [e for e in p.trace if e[0] in ("call", "apply", "req", "cache")])
    return out, undecided
