"""C19, instance half: the real _DatasetClassMixin.__init__ run symbolically for an instance of an ARBITRARY dataset class (symbolic member table over
dir(cls), any number of members; the class itself is used through the interface contract of the metaclass, proved in the class-law bundle), with the loop
that builds `_repr_options` used through the loop contract contracts/loop_restrict.py.  __eq__/__repr__ are structural (AST) obligations."""
from __future__ import annotations

import ast

import z3

from pyvc import theory as T
from pyvc.values import *  # noqa
from pyvc.symex import explore, litkey_facts
from pyvc.solve import VC
from .laws import FN_CONTRACTS, O1
from .loop_restrict import restrict_loop

SELF = z3.Const("self", T.Ev)
CLS = z3.Function("clsof", T.Ev, T.Ev)(SELF)


def _flat(events):
    for e in events:
        yield e


def build(repo):
    """returns (vcs, syntactic obligations, undecided)"""
    vcs, syn, und = [], [], []
    mod = repo.module("datasetclass")
    mixin = mod.classes.get("_DatasetClassMixin")

    def ob(name, ok, detail=""):
        syn.append({"name": f"DatasetClass:instance:{name}", "ok": bool(ok), "detail": str(detail)[:200], "group": "DatasetClass:instance"})
    if mixin is None or "__init__" not in mixin.methods:
        return [], [], [("_DatasetClassMixin.__init__", ["not found"])]
    init = mixin.methods["__init__"]

    def run(ex):
        s = ex.sym_self(mixin)
        ex.call_pyfunc(PyFunc(init, mod, owner=mixin), [s, Sym("opt", O1)], {})
        return s
    ps = explore(repo, run, tag="dc", config={"abstract_classes": (), "fn_contracts": FN_CONTRACTS, "loop_contracts": (restrict_loop,)})
    u = sorted({p.value for p in ps if p.kind == "unsupported"})
    if u:
        return [], [], [("_DatasetClassMixin.__init__", u)]
    hyp = T.base_axioms() + T.child_laws() + litkey_facts()
    m = {"law": "instance", "cls": "DatasetClass"}
    want_restrict = T.restrict(O1, T.KSset(CLS, O1))
    for n, p in enumerate(ps):
        pre = hyp + p.pc + p.defs
        # (a) member loop: exactly the evaluatable, non-dunder members are replaced by their evaluation under the given options
        loops = [t for t in p.trace if t[0] in ("loop", "loop-prefix")]
        ok_loop = len(loops) == 1
        detail = ""
        member = z3.Function("member", T.Ev, T.Val, T.Val)
        if ok_loop:
            for cond, evs in loops[0][3]:
                cs = str(cond)
                sets = [e for e in evs if e[0] == "setattr"]
                calls = [e for e in evs if e[0] == "call"]
                is_member = "isev(member(self" in cs and "Not(isev(member(self" not in cs and "Not(startswith!__" in cs and "Not(Not(startswith!__" not in cs
                if is_member:
                    good = len(sets) == 1 and len(calls) == 1 and calls[0][1] == "evaluate" and calls[0][3].eq(O1) and sets[0][1].eq(SELF)
                    if good:
                        name = sets[0][2]
                        good = calls[0][2].eq(T.ev_of(member(SELF, name))) and sets[0][3].eq(T.EVval(calls[0][2], O1))
                    if not good:
                        ok_loop, detail = False, f"member iteration: {evs}"[:180]
                elif sets or calls:
                    ok_loop, detail = False, f"plain member touched: {evs}"[:180]
        ob(f"every-evaluatable-member-set-to-its-evaluation-and-nothing-else#{n}", ok_loop, detail)
        others = [t for t in p.trace if t[0] in ("store", "setattr", "call") and not (t[0] == "store" and t[2] == "_repr_options") and not (t[0] == "call" and t[1] == "keys" and t[2].eq(CLS))]
        # an exit inside the member loop leaves the failing iteration's events at top level: allowed there
        if p.kind == "exc" and any(t[0] == "loop-prefix" for t in p.trace):
            others = [t for t in others if not (t[0] == "call" and t[1] == "evaluate")]
        ob(f"nothing-else-stored-or-evaluated#{n}", not others, others[:2])
        if p.kind == "ok":
            s = p.value
            ro = s.fields.get("_repr_options")
            is_opt = isinstance(ro, Sym) and ro.kind == "opt"
            vcs.append(VC(f"DatasetClass:instance:repr-options-are-the-options-restricted-to-the-reported-keys#{n}", pre,
                          (ro.term == want_restrict) if is_opt else z3.BoolVal(False), m))
        else:
            x = p.value
            t = getattr(x, "term", None)
            ts = str(t).replace("\n", " ")
            if t is not None and t.eq(T.KSexc(CLS, O1)):
                ob(f"failure-is-the-class-keys-failure#{n}", True)
            elif t is not None and z3.is_app(t) and t.decl().name() == "EVexc" and "member(self" in ts and t.arg(1).eq(O1):
                ob(f"failure-is-a-member-evaluation-failure#{n}", True)
            else:
                # any other failure (the lookup of a reported key) must be impossible: reported keys are present (L1 of the class)
                vcs.append(VC(f"DatasetClass:instance:no-other-failure#{n}", pre, z3.BoolVal(False), m))
    # __eq__ and __repr__
    eq = mixin.methods.get("__eq__")
    rp = mixin.methods.get("__repr__")
    # the returned condition is the conjunction of exactly: other is an instance of this instance's class; the two _repr_options are equal
    # (conjunct order and the sides of == are immaterial)
    got = ast.unparse(eq.body[-1].value) if eq is not None and isinstance(eq.body[-1], ast.Return) else ""
    atoms = set()
    if eq is not None and isinstance(eq.body[-1], ast.Return):
        e_ = eq.body[-1].value
        for a_ in (e_.values if isinstance(e_, ast.BoolOp) and isinstance(e_.op, ast.And) else [e_]):
            if isinstance(a_, ast.Compare) and len(a_.ops) == 1 and isinstance(a_.ops[0], ast.Eq):
                atoms.add(("eq", frozenset((ast.unparse(a_.left), ast.unparse(a_.comparators[0])))))
            elif isinstance(a_, ast.Call) and isinstance(a_.func, ast.Name) and a_.func.id == "isinstance" and len(a_.args) == 2:
                atoms.add(("isinstance", ast.unparse(a_.args[0]), ast.unparse(a_.args[1]).replace("type(self)", "self.__class__")))
            else:
                atoms.add(("other", ast.unparse(a_)))
    want_atoms = {("eq", frozenset(("self._repr_options", "other._repr_options"))), ("isinstance", "other", "self.__class__")}
    ob("eq-compares-class-and-restricted-options", eq is not None and len([s_ for s_ in eq.body if not isinstance(s_, ast.Expr)]) == 1 and atoms == want_atoms, got)
    if rp is not None:
        names = {n_.attr for n_ in ast.walk(rp) if isinstance(n_, ast.Attribute) and isinstance(n_.value, ast.Name) and n_.value.id == "self"}
        ob("repr-shows-class-name-and-restricted-options", names <= {"__class__", "_repr_options"} and "_repr_options" in names, sorted(names))
    else:
        ob("repr-shows-class-name-and-restricted-options", False, "no __repr__")
    return vcs, syn, und
