"""Definition-time code (decorators, `lift`, factories, metaclass constructors, builders): two kinds of structural obligations on the real AST.

 (1) C06, construction-time laziness: outside nested functions / lambdas (which run later, at evaluation time) no definition-time function contains a call that
     evaluates or inspects an expression (`.evaluate( .validate( .explain( .transform( .run(`, `.keys(<arg>)`).
 (2) plumbing patterns (matched with metavariables, so independent of how locals are spelled):
       FunctionApplication.lift / PartialApplication.lift : every parameter's value is `kwargs.get(p.name, p.default)` - an explicit override wins whatever it is,
           falsy values included - wrapped by `Evaluatable.ensure`; only VAR_KEYWORD parameters are skipped; a parameter without value is rejected;
       pipeline_step : every return is `PipelineStep(PartialApplication.lift(func), getattr(func, '__name__', None))`;
       interface._get_members : members of the same name are ALL collected, in interface order (`setdefault(name, []).append(member)`)."""
from __future__ import annotations

import ast

from .common import ast_find, ast_match, inline_lets

DEFINITION_TIME = [
    ("pipeline", None, "pipeline_step"), ("application", "FunctionApplication", "lift"), ("application", "PartialApplication", "lift"),
    ("application", "FunctionApplication", "__init__"), ("application", "PartialApplication", "__init__"), ("arguments", None, "arguments"),
    ("dataset", "DatasetFactory", "__init__"), ("dataset", "DatasetFactory", "__call__"), ("dataset", "DatasetFactory", "wrap"), ("dataset", "DatasetFactory", "update"),
    ("dataset", "DatasetFactory", "where"), ("dataset", "DatasetFactory", "nocache"), ("dataset", "Dataset", "__init__"), ("dataset", "Dataset", "overload"),
    ("dataset", "Dataset", "register"), ("dataset", "Dataset", "set_dispatch"), ("dataset", "Dataset", "with_options"), ("dataset", "Dataset", "with_default_options"),
    ("interface", None, "interface"), ("interface", None, "implements"), ("interface", None, "_get_members"), ("interface", None, "_build_overloads"),
    ("interface", "Interface", "__new__"), ("interface", "Interface", "__init__"), ("interface", "Interface", "implementation"),
    ("interface", "Implementation", "__new__"), ("interface", "Implementation", "__init__"),
    ("datasetclass", None, "datasetclass"), ("datasetclass", "_DatasetClassMeta", "__init__"),
    ("option", "Option", "__init__"), ("option", "Option", "auto"), ("option", "Option", "namespace"), ("option", "Namespace", "__init__"), ("option", "Namespace", "_from_type"),
    ("option", "Namespace", "_inherit"), ("option", "_Auto", "__init__"), ("option", "_Auto", "option"), ("option", "_Auto", "build"), ("option", "_Auto", "__rshift__"),
    ("conditional", None, "case"), ("conditional", "CaseWhen", "when"), ("conditional", "CaseWhen", "otherwise"), ("conditional", "CaseWhen", "__init__"),
    ("conditional", "Switch", "__init__"), ("coalesce", "Coalesce", "__init__"), ("collections", None, "evaluatable_list"), ("collections", None, "evaluatable_tuple"),
    ("collections", None, "evaluatable_set"), ("collections", None, "evaluatable_dict"), ("cache", None, "cached"), ("types", "Evaluatable", "apply"),
    ("types", "Evaluatable", "bind"), ("types", "Evaluatable", "__rshift__"), ("types", "Evaluatable", "ensure"), ("types", "Evaluatable", "unit"),
    ("iterable", "Iter", "__init__"), ("iterable", "Map", "__init__"), ("template", "Template", "__init__"), ("overload", "Overloaded", "__init__"),
    ("overload", "Overloaded", "register"), ("computation", "Computation", "__init__"), ("computation", "ChainedEffect", "__init__"),
    ("computation", "CallbackEffect", "__init__"), ("logging", "Logged", "__init__"), ("pipeline", "PipelineStep", "__init__"), ("pipeline", "PipelineStep", "__add__"),
    ("pipeline", "Pipeline", "__init__"), ("pipeline", "Pipeline", "__new__"), ("pipeline", "Pipeline", "__add__"),
]
EVALUATING = {"evaluate", "validate", "explain", "transform", "run"}


def _top_level_calls(fn):
    """calls executed when fn itself runs (bodies of nested defs / lambdas are skipped: they run when the built object is evaluated)"""
    stack = list(fn.body)
    while stack:
        n = stack.pop()
        if isinstance(n, (ast.FunctionDef, ast.AsyncFunctionDef, ast.Lambda)):
            # default values of a nested function ARE evaluated at definition time
            stack.extend(d for d in (n.args.defaults + [d for d in n.args.kw_defaults if d is not None]))
            continue
        if isinstance(n, ast.Call):
            yield n
        stack.extend(ast.iter_child_nodes(n))


def laziness(repo):
    out, und = [], []
    names = set()
    for m in repo.modules.values():
        names |= set(m.functions)
    for mod, cls, name in DEFINITION_TIME:
        m = repo.module(mod)
        fn = None
        if m is not None:
            fn = m.functions.get(name) if cls is None else (m.classes[cls].methods.get(name) if cls in m.classes else None)
        qual = f"{mod}:{cls + '.' if cls else ''}{name}"
        if fn is None:
            und.append((qual, ["definition-time function not found (renamed?)"]))
            continue
        bad = []
        for c in _top_level_calls(fn):
            f = c.func
            if isinstance(f, ast.Attribute) and (f.attr in EVALUATING or (f.attr == "keys" and (c.args or c.keywords))):
                recv = ast.unparse(f.value)
                if recv.startswith("super()") or recv in ("warnings", "functools", "inspect"):
                    continue
                bad.append(ast.unparse(c)[:60])
        out.append({"name": f"{qual}:C06def:no-evaluation-at-definition-time", "ok": not bad, "detail": "; ".join(bad)[:160], "group": "definition-time:C06"})
    return out, und


def plumbing(repo):
    out, und = [], []

    def ob(qual, name, ok, detail=""):
        out.append({"name": f"{qual}:plumbing:{name}", "ok": bool(ok), "detail": str(detail)[:160], "group": "definition-time:plumbing"})
    app = repo.module("application")
    for cls in ("FunctionApplication", "PartialApplication"):
        fn = app.classes[cls].methods.get("lift") if cls in app.classes else None
        q = f"{cls}.lift"
        if fn is None:
            und.append((q, ["not found"]))
            continue
        n1, b = ast_find("_d = kwargs.get(_p.name, _p.default)", fn)
        ob(q, "an-explicit-override-wins-whatever-its-value", n1 is not None, "no `default = kwargs.get(param.name, param.default)`")
        if n1 is None:
            continue
        others = [ast.unparse(n) for n in ast.walk(fn) if isinstance(n, ast.Assign) and len(n.targets) == 1 and isinstance(n.targets[0], ast.Name)
                  and n.targets[0].id == b["_d"] and n is not n1]
        ob(q, "the-value-is-not-rebound", not others, others)
        n2, b2 = ast_find("_ek[_p.name] = Evaluatable.ensure(_d)", fn, b)
        ob(q, "stored-under-the-parameter-name-through-ensure", n2 is not None)
        skips = [n for n in ast.walk(fn) if isinstance(n, ast.If) and any(isinstance(x, ast.Continue) for x in n.body)]
        ob(q, "only-VAR_KEYWORD-parameters-are-skipped", all(ast_match("_p.kind == _p.VAR_KEYWORD", s.test, b) is not None for s in skips) and len(skips) <= 1,
           [ast.unparse(s.test) for s in skips])
        if cls == "FunctionApplication":
            rej, _ = ast_find("_d is _p.empty", fn, b)
            ob(q, "a-parameter-without-value-is-rejected", rej is not None)
        else:
            kept, _ = ast_find("_d is not _p.empty", fn, b)
            ob(q, "exactly-the-parameters-with-a-value-are-bound", kept is not None)
        rets = [n for n in ast.walk(fn) if isinstance(n, ast.Return) and n.value is not None and not isinstance(n.value, ast.Lambda)]
        want = f"return {cls}(__func, **_ek)" if cls == "FunctionApplication" else None
        if b2 is not None:
            okr = any(ast.unparse(r.value).replace(" ", "").endswith(f"**{b2['_ek']})") and ast.unparse(r.value).startswith(("cls(", cls + "(")) for r in rets)
            ob(q, "returns-the-application-over-exactly-those-arguments", okr, [ast.unparse(r.value)[:60] for r in rets])
    ps = repo.module("pipeline").functions.get("pipeline_step")
    if ps is None:
        und.append(("pipeline_step", ["not found"]))
    else:
        f2 = inline_lets(ps)
        rets = [n for n in ast.walk(f2) if isinstance(n, ast.Return) and n.value is not None]
        good = rets and all(ast_match("return PipelineStep(PartialApplication.lift(_f), getattr(_f, '__name__', None))", r) is not None for r in rets)
        ob("pipeline_step", "every-return-lifts-the-function-into-a-step", good, [ast.unparse(r.value)[:70] for r in rets])
    # DatasetFactory.update: every field of the updated factory is a function of the same-named argument and the same-named field ONLY
    ds = repo.module("dataset")
    upd = ds.classes["DatasetFactory"].methods.get("update") if "DatasetFactory" in ds.classes else None
    if upd is None:
        und.append(("DatasetFactory.update", ["not found"]))
    else:
        f2 = inline_lets(upd)
        rets = [n for n in ast.walk(f2) if isinstance(n, ast.Return) and isinstance(n.value, ast.Call)]
        okshape = len(rets) == 1 and ast.unparse(rets[0].value.func) == "DatasetFactory" and not rets[0].value.args
        ob("DatasetFactory.update", "returns-one-new-factory-built-by-keywords", okshape, [ast.unparse(r.value)[:60] for r in rets])
        if okshape:
            params = {a.arg for a in upd.args.args[1:] + upd.args.kwonlyargs}
            seen = set()
            for kw in rets[0].value.keywords:
                seen.add(kw.arg)
                names = {x.id for x in ast.walk(kw.value) if isinstance(x, ast.Name)} - {"self", "None"}
                attrs = {x.attr for x in ast.walk(kw.value) if isinstance(x, ast.Attribute) and isinstance(x.value, ast.Name) and x.value.id == "self"}
                calls = [ast.unparse(c.func) for c in ast.walk(kw.value) if isinstance(c, ast.Call)]
                comps = [c for c in ast.walk(kw.value) if isinstance(c, (ast.ListComp, ast.DictComp, ast.SetComp, ast.GeneratorExp))]
                ob("DatasetFactory.update", f"{kw.arg}-depends-on-its-own-argument-and-field-only", names <= {kw.arg} and attrs <= {kw.arg} and not calls and not comps,
                   ast.unparse(kw.value)[:80])
            ob("DatasetFactory.update", "every-field-is-passed-on", params <= seen, sorted(params - seen))
    # Interface.__init__: a member that already is a dataset is re-pointed to the interface's dispatch, unconditionally
    it = repo.module("interface").classes.get("Interface")
    ii = it.methods.get("__init__") if it else None
    if ii is None:
        und.append(("Interface.__init__", ["not found"]))
    else:
        found = False
        for n in ast.walk(ii):
            if isinstance(n, ast.If):
                b = ast_match("isinstance(_v, Dataset)", n.test)
                if b is not None:
                    found = len(n.body) == 1 and ast_match("_v.set_dispatch(_d)", n.body[0], b) is not None
        ob("Interface.__init__", "dataset-members-get-the-interface-dispatch-unconditionally", found)
    # Map._create_option_set: the option set is built by set_dotted_key over every (key, value) pair, from an empty dictionary
    mp = repo.module("iterable").classes.get("Map")
    cos = mp.methods.get("_create_option_set") if mp else None
    if cos is None:
        und.append(("Map._create_option_set", ["not found"]))
    else:
        loop = [n for n in ast.walk(cos) if isinstance(n, ast.For)]
        okc = len(loop) == 1 and len(loop[0].body) == 1 and isinstance(loop[0].target, ast.Tuple) and len(loop[0].target.elts) == 2
        if okc:
            k_, v_ = (e.id for e in loop[0].target.elts)
            okc = ast_match("set_dotted_key(_k, _v, _o)", loop[0].body[0], {"_k": k_, "_v": v_}) is not None and ast.unparse(loop[0].iter) == cos.args.vararg.arg
        ob("Map._create_option_set", "every-pair-is-set-by-set_dotted_key", okc, ast.unparse(cos)[-120:])
    gm = repo.module("interface").functions.get("_get_members")
    if gm is None:
        und.append(("_get_members", ["not found"]))
    else:
        n, _ = ast_find("_m.setdefault(_n, []).append(_x)", gm)
        ob("_get_members", "same-named-members-of-every-interface-are-all-collected", n is not None)
        loops = [l for l in ast.walk(gm) if isinstance(l, ast.For)]
        ob("_get_members", "walks-every-interface-and-every-member", len(loops) == 2, len(loops))
    return out, und
