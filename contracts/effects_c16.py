"""C02/C16 obligations on Computation, Logged, the logging handlers and the disabled() contexts (ghost-trace + value obligations)."""
from __future__ import annotations

import ast

import z3

from pyvc import theory as T
from pyvc.values import *  # noqa
from pyvc.solve import VC
from pyvc.symex import explore
from .laws import Runs, base_noregion, O1, SELF, flat_events, unsupported


def computation(repo):
    ci = repo.module("computation").classes["Computation"]
    R = Runs(repo, ci)
    ps = R.paths("evaluate", 1)
    if unsupported(ps):
        return [], [], [("Computation.evaluate", sorted(set(unsupported(ps))))]
    inner = z3.Function("fld!Computation.evaluatable", T.Ev, T.Ev)(SELF)
    eff = z3.Function("fld!Computation.effect", T.Ev, T.Ev)(SELF)
    hyp = base_noregion(ci)
    vcs, syn = [], []
    g = "Computation:C16"
    for i, p in enumerate(ps):
        evs = list(flat_events(p.trace))
        idx_inner = [n for n, e in enumerate(evs) if e[0] == "call" and e[1] == "evaluate" and e[2].eq(inner)]
        tf = [(n, e) for n, e in enumerate(evs) if e[0] == "call" and e[1] == "transform"]
        disabled = any(str(c).startswith("truthy(") and "LABREA.EFFECTS.DISABLED" in str(c) for c in p.pc)
        enabled = any(str(c).startswith("Not(truthy(") and "LABREA.EFFECTS.DISABLED" in str(c) for c in p.pc)
        syn.append({"name": f"Computation:C16:body-evaluated-once-first#{i}", "ok": len(idx_inner) == 1 and all(n > idx_inner[0] for n, _ in tf), "detail": "", "group": g})
        if disabled:
            syn.append({"name": f"Computation:C16:effects-off-runs-no-effect#{i}", "ok": not tf, "detail": "", "group": g})
        if enabled:
            syn.append({"name": f"Computation:C16:effects-on-runs-the-effect-once#{i}", "ok": len(tf) == 1 and tf[0][1][2].eq(eff), "detail": "", "group": g})
            if tf:
                e = tf[0][1]
                vcs.append(VC(f"Computation:C16:effect-gets-the-body-value-and-options#{i}", hyp + p.pc + p.defs,
                              z3.And(e[4] == T.EVval(inner, O1), e[3] == O1), {"law": "C16", "cls": "Computation"}))
        if p.kind == "ok":
            vcs.append(VC(f"Computation:C16:value-is-the-body-value#{i}", hyp + p.pc + p.defs, z3.And(T.EVok(inner, O1), p.value[1] == T.EVval(inner, O1)),
                          {"law": "C16", "cls": "Computation"}))
    return vcs, syn, []


def logged(repo):
    ci = repo.module("logging").classes["Logged"]
    R = Runs(repo, ci)
    ps = R.paths("evaluate", 1)
    if unsupported(ps):
        return [], [], [("Logged.evaluate", sorted(set(unsupported(ps))))]
    inner = z3.Function("fld!Logged.evaluatable", T.Ev, T.Ev)(SELF)
    hyp = base_noregion(ci)
    vcs, syn = [], []
    g = "Logged:C16"
    for i, p in enumerate(ps):
        evs = list(flat_events(p.trace))
        reqs = [e for e in evs if e[0] == "req" and e[1] == "LogRequest"]
        emits = [e for e in evs if e[0] == "emit"]
        disabled = any(str(c).startswith("truthy(") and "LABREA.LOGGING.DISABLED" in str(c) for c in p.pc)
        log_first = any(str(c) == "fld!Logged.log_first(self)" for c in p.pc)
        if not (p.kind == "ok" or log_first):
            continue    # log_first=False and the inner evaluation failed: nothing is logged (Dataset always logs first)
        syn.append({"name": f"Logged:C16:exactly-one-log-request#{i}", "ok": len(reqs) == 1, "detail": str(len(reqs)), "group": g})
        if reqs:
            r = reqs[0][2]
            fl = r.fields
            okf = all(str(getattr(fl.get(k), "term", None)) == f"fld!Logged.{k}(self)" for k in ("level", "name", "msg"))
            oko = str(getattr(fl.get("options"), "term", None)) == "o"
            syn.append({"name": f"Logged:C16:request-carries-level-name-msg-options#{i}", "ok": okf and oko, "detail": "", "group": g})
        syn.append({"name": f"Logged:C16:default-handler-emits-once-unless-disabled#{i}", "ok": len(emits) == (0 if disabled else 1), "detail": f"emits={len(emits)} disabled={disabled}", "group": g})
        if p.kind == "ok":
            vcs.append(VC(f"Logged:C16:value-is-the-inner-value#{i}", hyp + p.pc + p.defs, z3.And(T.EVok(inner, O1), p.value[1] == T.EVval(inner, O1)),
                          {"law": "C16", "cls": "Logged"}))
    return vcs, syn, []


def disabled_contexts(repo):
    """cache.disabled() / logging.disabled() are runtimes derived with handle() holding exactly the _disabled_* handlers (AST),
    and those handlers touch no backend / emit nothing (symbolic run)."""
    syn = []
    cache = repo.module("cache")
    logm = repo.module("logging")

    def ob(name, ok, detail=""):
        syn.append({"name": f"disabled:{name}", "ok": bool(ok), "detail": detail, "group": "disabled:C16"})
    from .common import inline_lets
    f = cache.functions.get("disabled")
    f = inline_lets(f) if f else f          # named temporaries are immaterial
    src = ast.unparse(f.body[-1]) if f else ""
    ob("cache.disabled-derives-via-runtime.handle", src.startswith("return runtime.handle("), src[:80])
    want = {"CacheSetRequest": "_disabled_set_cache_handler", "CacheGetRequest": "_disabled_get_cache_handler", "CacheExistsRequest": "_disabled_exists_cache_handler"}
    got = {}
    if f and isinstance(f.body[-1], ast.Return) and isinstance(f.body[-1].value, ast.Call) and f.body[-1].value.args and isinstance(f.body[-1].value.args[0], ast.Dict):
        d = f.body[-1].value.args[0]
        got = {ast.unparse(k): ast.unparse(v) for k, v in zip(d.keys, d.values)}
    ob("cache.disabled-overrides-exactly-the-three-cache-requests", got == want, str(got))
    f = logm.functions.get("disabled")
    f = inline_lets(f) if f else f
    src = ast.unparse(f.body[-1]) if f else ""
    ob("logging.disabled-overrides-LogRequest", src.replace(" ", "") == "returnruntime.handle(LogRequest,_disabled_logging_handler)", src[:80])
    # the disabled handlers themselves
    for name, mod in (("_disabled_set_cache_handler", cache), ("_disabled_get_cache_handler", cache), ("_disabled_exists_cache_handler", cache), ("_disabled_logging_handler", logm)):
        fn = mod.functions.get(name)
        if fn is None:
            ob(f"{name}-exists", False)
            continue

        def run(ex, fn=fn, mod=mod, name=name):
            rc = {"_disabled_set_cache_handler": "CacheSetRequest", "_disabled_get_cache_handler": "CacheGetRequest",
                  "_disabled_exists_cache_handler": "CacheExistsRequest", "_disabled_logging_handler": "LogRequest"}[name]
            req = Obj(mod.classes[rc], {}, z3.Const("req", T.Ev))
            return ex.call(PyFunc(fn, mod), [req], {})
        from .cache_model import sound_backend
        ps = explore(repo, run, tag="dh", config={"cache_model": sound_backend})
        touched = any(e[0] in ("cache", "emit", "call") for p in ps for e in p.trace)
        ob(f"{name}-touches-no-backend-and-emits-nothing", not touched and all(p.kind != "unsupported" for p in ps))
        if name == "_disabled_set_cache_handler":
            ob(f"{name}-returns-the-computed-value", all(p.kind == "ok" and str(getattr(p.value, "term", "")) == "fld!CacheSetRequest.value(req)" for p in ps))
        if name == "_disabled_exists_cache_handler":
            ob(f"{name}-reports-absent", all(p.kind == "ok" and p.value is False for p in ps))
        if name == "_disabled_get_cache_handler":
            ob(f"{name}-fails-with-CacheGetFailure", all(p.kind == "exc" and isinstance(p.value, Obj) and p.value.clsname == "CacheGetFailure" for p in ps))
    return syn


def nocache(repo):
    syn = []
    ci = repo.module("cache").classes.get("NoCache")

    def ob(name, ok, detail=""):
        syn.append({"name": f"NoCache:{name}", "ok": bool(ok), "detail": detail, "group": "NoCache:C16"})
    for meth in ("get", "set"):
        fn = ci.methods.get(meth)

        def run(ex, fn=fn):
            s = Obj(ci, {}, z3.Const("nocache", T.Ev))
            a = [Sym("ev", z3.Const("e", T.Ev)), Sym("opt", z3.Const("o", T.Opt))] + ([Sym("val", z3.Const("v", T.Val))] if fn.name == "set" else [])
            return ex.call(PyFunc(fn, ci.module, owner=ci), [s] + a, {})
        ps = explore(repo, run, tag="nc", config={})
        if meth == "get":
            ob("get-always-misses", all(p.kind == "exc" and isinstance(p.value, Obj) and p.value.clsname == "CacheGetFailure" for p in ps))
        else:
            ob("set-stores-nothing", all(p.kind == "ok" and not any(e[0] == "store" for e in p.trace) for p in ps))
    return syn
