"""DatasetFactory.wrap (what the @dataset decorator finally calls): keyword plumbing into the Dataset it builds (C08/C01/C06/C16 anchors).
The real body is run symbolically with the factory's fields symbolic; two callees are used by contract (their own behaviour is decided elsewhere):
  * Pipeline.__add__            -> the opaque expression padd(left, right)   (pipeline algebra: C13)
  * FunctionApplication.lift    -> the opaque expression lifted(definition, defaults)   (inspect.signature based: bounded search only)
Obligations are structural facts about the Dataset object every path returns."""
from __future__ import annotations

import z3

from pyvc import theory as T
from pyvc.values import *  # noqa
from pyvc.symex import explore
from .laws import FN_CONTRACTS, SELF, flat_events

DEFN = z3.Const("defn", T.Val)
PADD = z3.Function("padd", T.Ev, T.Val, T.Ev)
LIFT = z3.Function("lifted", T.Val, T.Val, T.Ev)


def _padd(ex, vars):
    return Sym("ev", PADD(ex.as_ev(vars["self"]), ex.as_val(vars["other"])), ex.repo.find_class("Pipeline"))


def _lift(ex, vars):
    f = vars.get("_FunctionApplication__func", vars.get("__func"))
    kw = vars.get("kwargs")
    ex.event("lift", ex.as_val(f), kw)
    return Sym("ev", LIFT(ex.as_val(f), z3.Const("defaults!of!factory", T.Val)), ex.repo.find_class("FunctionApplication"))


def obligations(repo):
    out, und = [], []
    mod = repo.module("dataset")
    F = mod.classes.get("DatasetFactory")

    def ob(name, ok, detail=""):
        out.append({"name": f"DatasetFactory.wrap:C08:{name}", "ok": bool(ok), "detail": str(detail)[:200], "group": "DatasetFactory.wrap:C08"})
    if F is None or "wrap" not in F.methods:
        return [], [("DatasetFactory.wrap", ["not found"])]
    cfg = {"abstract_classes": (), "fn_contracts": {**FN_CONTRACTS, ("labrea.pipeline", "Pipeline.__add__"): _padd, ("labrea.application", "FunctionApplication.lift"): _lift}}

    def run(ex):
        s = ex.sym_self(F)
        return ex.call(ex.getattr(s, "wrap"), [Sym("val", DEFN)], {})
    ps = explore(repo, run, tag="wf", config=cfg)
    u = sorted({p.value for p in ps if p.kind == "unsupported"})
    if u:
        return [], [("DatasetFactory.wrap", u)]

    def is_fld(v, name):
        return str(getattr(v, "term", "")) == f"fld!DatasetFactory.{name}(self)"
    n_ok = 0
    for i, p in enumerate(ps):
        evs = [e for e in flat_events(p.trace) if e[0] in ("call", "apply", "req", "cache")]
        # the one call allowed: the user's cache factory, without arguments
        evs = [e for e in evs if not (e[0] == "apply" and str(e[1]) == "fld!DatasetFactory.cache(self)" and "noargs" in str(e[2]))]
        ob(f"evaluates-nothing#{i}", not evs, evs[:2])
        if p.kind != "ok":
            # the only rejection: a cache argument that is neither absent, a factory nor a Cache
            x = p.value
            from_factory = isinstance(x, ExcSym) and "call_exc(fld!DatasetFactory.cache(self)" in str(x.term).replace("\n", "")
            ob(f"rejects-only-an-invalid-cache-or-as-the-cache-factory-fails#{i}", from_factory or (isinstance(x, Obj) and x.clsname == "TypeError" and any("fld!DatasetFactory.cache" in str(c) for c in p.pc)), repr(x))
            continue
        n_ok += 1
        d = p.value
        good = isinstance(d, Obj) and d.clsname == "Dataset"
        ob(f"returns-a-dataset#{i}", good, repr(d))
        if not good:
            continue
        f = d.fields
        abstract = any(str(z3.simplify(c)) == "fld!DatasetFactory.abstract(self)" for c in p.pc)
        ov = f.get("overloads")
        okov = isinstance(ov, Obj) and ov.clsname == "Overloaded" and is_fld(ov.fields.get("dispatch"), "dispatch") and isinstance(ov.fields.get("lookup"), PyDict) and not ov.fields["lookup"].items
        ob(f"overloads-over-the-factory-dispatch-with-no-registration#{i}", okov, repr(ov))
        if okov:
            dflt = ov.fields.get("default")
            if abstract:
                ob(f"abstract-has-no-default-implementation#{i}", dflt is MISSING, repr(dflt))
            else:
                is_ev_defn = any("isev(defn)" == str(z3.simplify(c)) for c in p.pc)
                want = "defn" if is_ev_defn else "lifted(defn"
                ob(f"default-implementation-is-the-definition#{i}", dflt is not MISSING and want in str(getattr(dflt, "term", dflt)), repr(dflt))
        ob(f"effects-are-the-factory-effects#{i}", isinstance(f.get("effects"), SeqV) and "fld!DatasetFactory.effects" in str(f["effects"].n) or is_fld(f.get("effects"), "effects"), repr(f.get("effects")))
        ob(f"options-are-the-factory-options#{i}", is_fld(f.get("options"), "options"), repr(f.get("options")))
        ob(f"default-options-are-the-factory-default-options#{i}", is_fld(f.get("default_options"), "default_options"), repr(f.get("default_options")))
        cb = f.get("callback")
        cbt = str(getattr(cb, "term", ""))
        ob(f"callback-is-the-identity-pipeline-plus-the-factory-callback#{i}", cbt.startswith("padd(") and "fld!DatasetFactory.callback(self)" in cbt, cbt[:120])
        c = f.get("cache")
        cs = [str(z3.simplify(x)) for x in p.pc]
        ob(f"cache-by-the-stated-rule#{i}", (isinstance(c, Obj) and c.clsname == "MemoryCache") or "fld!DatasetFactory.cache" in str(getattr(c, "term", c)), repr(c))
    ob("some-path-returns", n_ok > 0)
    return out, und
