"""Cacheable.fingerprint: refinement of the real body against F(sorted pairs of keys(o) with their values in o),
and the corollaries of L1+L2 that the cache relies on (DESIGN section 4)."""
from __future__ import annotations

import z3

from pyvc import theory as T
from pyvc.values import *  # noqa
from pyvc.symex import explore
from pyvc.solve import VC

O1 = z3.Const("o", T.Opt)
O2 = z3.Const("o2", T.Opt)
E = z3.Const("e", T.Ev)

T.assume("dep.json.injective", "fingerprints (json.dumps of the sorted [{key: value}] list, encoded) are equal iff the key sets are equal and "
         "the values under every key are equal (fpF(o,S)=fpF(o2,S2) <=> S=S2 and o,o2 agree on S)")


def fp_axioms():
    o, o2 = z3.Consts("o!f o2!f", T.Opt)
    S, S2 = z3.Consts("S!f S2!f", T.KSet)
    return [
        z3.ForAll([o, o2, S, S2], z3.Implies(T.fpF(o, S) == T.fpF(o2, S2), z3.And(S == S2, T.agreeP(o, o2, S))),
                  patterns=[z3.MultiPattern(T.fpF(o, S), T.fpF(o2, S2))]),
        z3.ForAll([o, o2, S], z3.Implies(T.agreeP(o, o2, S), T.fpF(o, S) == T.fpF(o2, S)), patterns=[z3.MultiPattern(T.fpF(o, S), T.fpF(o2, S))]),
        # ghost restriction: dictionaries agreeing on S have the same restriction to S; a dictionary agrees with its restriction
        z3.ForAll([o, o2, S], z3.Implies(T.agreeP(o, o2, S), T.restrict(o, S) == T.restrict(o2, S)),
                  patterns=[z3.MultiPattern(T.agreeP(o, o2, S), T.restrict(o, S), T.restrict(o2, S))]),
    ]


def build(repo):
    vcs, undecided = [], []
    types = repo.module("types")
    ci = types.classes["Cacheable"]
    fn = ci.methods["fingerprint"]
    evci = types.classes["Evaluatable"]

    def run(ex):
        s = Sym("ev", E, evci)
        return ex.call(PyFunc(fn, types, owner=ci), [s, Sym("opt", O1)], {})
    ps = explore(repo, run, tag="fp", config={"abstract_classes": ()})
    u = sorted({p.value for p in ps if p.kind == "unsupported"})
    if u:
        undecided.append(("Cacheable.fingerprint", u))
        ps = []
    # frame: the fingerprint is a function of its arguments - it stores nothing (no attribute / item / global store anywhere in its body), so it cannot
    # remember an earlier dictionary (decided on the AST, also when the body itself has left the supported subset)
    import ast as _ast
    stores = [_ast.unparse(n) for n in _ast.walk(fn) if (isinstance(n, (_ast.Attribute, _ast.Subscript)) and isinstance(n.ctx, (_ast.Store, _ast.Del)))
              or isinstance(n, (_ast.Global, _ast.Nonlocal))
              or (isinstance(n, _ast.Call) and isinstance(n.func, _ast.Name) and n.func.id in ("setattr", "delattr"))
              or (isinstance(n, _ast.Call) and isinstance(n.func, _ast.Attribute) and n.func.attr in ("__setattr__", "__setitem__", "setdefault", "update", "append", "add"))]
    vcs.append(VC("Cacheable:fingerprint:stores-nothing", [], z3.BoolVal(not stores), {"law": "fingerprint", "cls": "Cacheable", "detail": str(stores)[:160]}))
    hyp = T.base_axioms() + T.child_laws(("L1", "L2", "L3", "L6v"))
    k = z3.Const("k!fp", T.Key)
    for i, p in enumerate(ps):
        if p.kind == "ok":
            v = p.value
            good = type(v).__name__ == "FingerprintV"
            goal = z3.BoolVal(False)
            if good:
                # keys of the list = KS(e,o); the value paired with k is get(o,k) in the CALLER's options
                goal = z3.And(z3.ForAll([k], v.ks.mem(k) == z3.IsMember(k, T.KSset(E, O1))),
                              z3.ForAll([v.k], z3.Implies(v.ks.mem(v.k), v.value == T.get(O1, v.k))))
            vcs.append(VC(f"Cacheable:fingerprint:refines#{i}", hyp + p.pc + p.defs, goal, {"law": "fingerprint", "cls": "Cacheable"}))
        else:
            # fingerprint raises only when keys() raises (needs L1: every reported key can be looked up)
            x = p.value
            goal = z3.And(z3.Not(T.KSok(E, O1)), x.term == T.KSexc(E, O1)) if isinstance(x, ExcSym) else z3.BoolVal(False)
            vcs.append(VC(f"Cacheable:fingerprint:raises-only-keys#{i}", hyp + p.pc + p.defs, goal, {"law": "fingerprint", "cls": "Cacheable"}))
    # ---- corollaries over the contracts (no code involved): cache soundness
    S1, S2 = T.KSset(E, O1), T.KSset(E, O2)
    hyp2 = hyp + fp_axioms()
    R = T.restrict(O1, S1)
    pre = [T.KSok(E, O1), T.KSok(E, O2), T.fpF(O1, S1) == T.fpF(O2, S2)]
    vcs.append(VC("Cacheable:soundness:restriction-agrees", hyp2 + pre, z3.And(T.sub(R, O1), T.agreeP(O1, R, S1), T.sub(T.restrict(O2, S2), O2),
                                                                              T.agreeP(O2, T.restrict(O2, S2), S2), R == T.restrict(O2, S2)),
                  {"law": "soundness", "cls": "Cacheable"}))
    R2 = T.restrict(O2, S2)
    lemma = [T.sub(R, O1), T.agreeP(O1, R, S1), T.sub(R2, O2), T.agreeP(O2, R2, S2), R == R2]     # = the obligation proved just above (lemma chaining)
    vcs.append(VC("Cacheable:soundness:equal-fingerprint-equal-outcome", hyp2 + pre + lemma, T.ev_equiv(E, O1, O2), {"law": "soundness", "cls": "Cacheable"}))
    # fingerprint differs whenever a value under a reported key differs / key sets differ (injectivity instance)
    kk = z3.Const("k!d", T.Key)
    vcs.append(VC("Cacheable:fingerprint:differs-on-reported-change",
                  hyp2 + [T.KSok(E, O1), T.KSok(E, O2), S1 == S2, z3.IsMember(kk, S1), T.get(O1, kk) != T.get(O2, kk)],
                  T.fpF(O1, S1) != T.fpF(O2, S2), {"law": "fingerprint", "cls": "Cacheable"}))
    vcs.append(VC("Cacheable:fingerprint:identical-when-agreeing", hyp2 + [T.KSok(E, O1), T.KSok(E, O2), S1 == S2, T.agreeP(O1, O2, S1)],
                  T.fpF(O1, S1) == T.fpF(O2, S2), {"law": "fingerprint", "cls": "Cacheable"}))
    # ---- C02, upward direction: two dictionaries that hold the same values under every key reported for EITHER of them (i.e. they differ only by
    # adding / changing / removing keys nothing refers to) report the same keys, have the same outcome and the same fingerprint.  From L1 + L2 via the
    # common restriction (no code involved).
    U = z3.SetUnion(S1, S2)
    Rc, Rc2 = T.restrict(O1, U), T.restrict(O2, U)
    pre_up = [T.KSok(E, O1), T.KSok(E, O2), T.agreeP(O1, O2, U)]
    lem_up = [Rc == Rc2, T.sub(Rc, O1), T.sub(Rc, O2), T.agreeP(O1, Rc, S1), T.agreeP(O2, Rc, S2)]
    mm = {"law": "irrelevance", "cls": "Cacheable"}
    vcs.append(VC("Cacheable:irrelevance:subset-facts", hyp2 + [T.KSok(E, O1), T.KSok(E, O2)], z3.And(z3.IsSubset(S1, U), z3.IsSubset(S2, U)), mm))
    vcs.append(VC("Cacheable:irrelevance:common-restriction", hyp2 + pre_up, z3.And(*lem_up), mm))
    vcs.append(VC("Cacheable:irrelevance:same-keys-same-outcome", hyp2 + pre_up + lem_up, z3.And(S1 == S2, T.ev_equiv(E, O1, O2)), mm))
    vcs.append(VC("Cacheable:irrelevance:same-fingerprint", hyp2 + pre_up + lem_up + [S1 == S2], T.fpF(O1, S1) == T.fpF(O2, S2), mm))
    sanity_up = VC("Cacheable:sanity:irrelevance-hypotheses-consistent", hyp2 + pre_up + lem_up, z3.BoolVal(False), {"law": "sanity", "cls": "Cacheable"}, expect="not-unsat")
    sanity = [sanity_up, VC("Cacheable:sanity:unequal-keysets-may-differ", hyp2 + [T.KSok(E, O1), T.KSok(E, O2)], T.fpF(O1, S1) == T.fpF(O2, S2),
                 {"law": "sanity", "cls": "Cacheable"}, expect="not-unsat")]
    return vcs, undecided, sanity
