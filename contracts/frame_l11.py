"""L11 (frame): evaluation, validation and key inspection never store into the caller's or the pre-set dictionaries.
Syntactic obligation over the real AST of every class body in /repo/labrea: no subscript store / del / mutating method call whose
receiver is `options`, `self.options`, `self.default_options` or `request.options`."""
from __future__ import annotations

import ast

MUTATORS = {"update", "setdefault", "pop", "popitem", "clear", "__setitem__", "__delitem__"}
NAMES_ALL = {"options", "self.options", "self.default_options", "request.options"}


def obligations(repo):
    out = []
    for m in repo.modules.values():
        for ci in m.classes.values():
            for name, fn in ci.methods.items():
                bad = []
                params = {a.arg for a in fn.args.args + fn.args.kwonlyargs + fn.args.posonlyargs}
                NAMES = {x for x in NAMES_ALL if not (x == "options" and "options" not in params)}
                for n in ast.walk(fn):
                    tgt = None
                    if isinstance(n, (ast.Assign, ast.AugAssign, ast.AnnAssign)):
                        ts = n.targets if isinstance(n, ast.Assign) else [n.target]
                        for t in ts:
                            if isinstance(t, ast.Subscript) and ast.unparse(t.value) in NAMES:
                                bad.append(f"store into {ast.unparse(t)}")
                    elif isinstance(n, ast.Delete):
                        for t in n.targets:
                            if isinstance(t, ast.Subscript) and ast.unparse(t.value) in NAMES:
                                bad.append(f"del {ast.unparse(t)}")
                    elif isinstance(n, ast.Call) and isinstance(n.func, ast.Attribute) and n.func.attr in MUTATORS and ast.unparse(n.func.value) in NAMES:
                        bad.append(f"{ast.unparse(n.func)}(...)")
                    elif isinstance(n, ast.Call) and ast.unparse(n.func) == "set_dotted_key" and len(n.args) == 3 and ast.unparse(n.args[2]) in NAMES:
                        bad.append("set_dotted_key into an input dictionary")
                out.append({"name": f"{ci.name}.{name}:L11:no-store-into-input-dictionaries", "ok": not bad, "detail": "; ".join(bad), "group": f"{ci.name}:L11"})
    return out
