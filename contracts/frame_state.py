"""Frame for hidden state (C01/C02/C03 anchor 'the outcome depends on the expression and the options only'): outside constructors and the few
declared mutators no method of a class reaching the Evaluatable/Cacheable/Validatable/Explainable ABCs - nor of MemoryCache - stores into an
attribute of its receiver, into a class attribute, or into a module global.  Decided on the AST of every method of every such class, so it also
holds for methods whose bodies have left the executor's subset (a memo added to evaluate/keys/fingerprint is a store)."""
from __future__ import annotations

import ast

# declared mutators (each has its own contract elsewhere): "Class.method" -> attributes it may write on self
MUTATORS = {
    "Overloaded.register": {"lookup"}, "Overloaded.__setstate__": {"__dict__", "_lock"},
    "Dataset.register": set(), "Dataset.set_dispatch": {"overloads"}, "Dataset.add_effects": {"effects"}, "Dataset.set_cache": {"cache"},
    "Dataset.disable_effects": {"_effects_disabled"}, "Dataset.enable_effects": {"_effects_disabled"}, "Dataset.overload": set(),
    "Dataset.set_options": {"options"}, "Dataset.set_default_options": {"default_options"}, "Dataset.set_callback": {"callback"},
    "MemoryCache.set": {"_cache[]"},
    "_DatasetClassMeta.__init__": None, "_DatasetClassMixin.__init__": None, "Interface.__init__": None, "Implementation.__init__": None, "Interface.__setattr__": None,
}
CTORS = {"__init__", "__new__", "__init_subclass__", "__post_init__", "__set_name__"}


def obligations(repo):
    out = []
    for m in repo.modules.values():
        for ci in m.classes.values():
            relevant = ci.name == "MemoryCache" or any(repo.is_subclass(ci, b) for b in ("Evaluatable", "Cacheable", "Validatable", "Explainable", "Effect", "Cache"))
            if not relevant:
                continue
            for name, fn in ci.methods.items():
                qual = f"{ci.name}.{name}"
                if name in CTORS or (qual in MUTATORS and MUTATORS[qual] is None):
                    continue
                allowed = MUTATORS.get(qual, set())
                recv = fn.args.args[0].arg if fn.args.args else "self"
                bad = []
                for n in ast.walk(fn):
                    if isinstance(n, (ast.Global, ast.Nonlocal)):
                        bad.append(ast.unparse(n))
                    elif isinstance(n, ast.Attribute) and isinstance(n.ctx, (ast.Store, ast.Del)) and isinstance(n.value, ast.Name) and n.value.id in (recv, "cls"):
                        if n.attr not in allowed:
                            bad.append(ast.unparse(n))
                    elif isinstance(n, ast.Subscript) and isinstance(n.ctx, (ast.Store, ast.Del)) and isinstance(n.value, ast.Attribute) \
                            and isinstance(n.value.value, ast.Name) and n.value.value.id in (recv, "cls"):
                        if n.value.attr + "[]" not in allowed:
                            bad.append(ast.unparse(n))
                    elif isinstance(n, ast.Call) and isinstance(n.func, ast.Name) and n.func.id in ("setattr", "delattr") and n.args \
                            and isinstance(n.args[0], ast.Name) and n.args[0].id in (recv, "cls"):
                        bad.append(ast.unparse(n))
                out.append({"name": f"{qual}:frame:no-hidden-state", "ok": not bad, "detail": "; ".join(bad)[:160], "group": f"{ci.name}:frame"})
    return out
