"""Frame for hidden state (C01/C02/C03 anchor 'the outcome depends on the expression and the options only'): outside constructors and the few
declared mutators no method of a class reaching the Evaluatable/Cacheable/Validatable/Explainable ABCs - nor of MemoryCache - stores into an
attribute of its receiver, into a class attribute, or into a module global.  Decided on the AST of every method of every such class, so it also
holds for methods whose bodies have left the executor's subset (a memo added to evaluate/keys/fingerprint is a store)."""
from __future__ import annotations

import ast

# declared mutators (each has its own contract elsewhere): "Class.method" -> attributes it may write on self
MUTATORS = {
    "Overloaded.register": {"lookup"}, "Overloaded.__setstate__": {"__dict__", "_lock"},
    "Dataset.register": set(), "Dataset.set_dispatch": {"overloads"}, "Dataset.add_effects": {"effects"}, "Dataset.set_cache": {"cache"},
    "Dataset.disable_effects": {"_effects_disabled"}, "Dataset.enable_effects": {"_effects_disabled"}, "Dataset.overload": set(),
    "Dataset.set_options": {"options"}, "Dataset.set_default_options": {"default_options"}, "Dataset.set_callback": {"callback"},
    "MemoryCache.set": {"_cache[]"},
    "_DatasetClassMeta.__init__": None, "_DatasetClassMixin.__init__": None, "Interface.__init__": None, "Implementation.__init__": None, "Interface.__setattr__": None,
}
CTORS = {"__init__", "__new__", "__init_subclass__", "__post_init__", "__set_name__"}
# container methods that change their receiver
MUT_METHODS = {"add", "append", "extend", "insert", "remove", "discard", "pop", "popitem", "clear", "update", "setdefault", "sort", "reverse",
               "appendleft", "popleft", "extendleft", "rotate", "__setitem__", "__delitem__", "__iadd__", "__ior__", "move_to_end", "intersection_update", "difference_update",
               "symmetric_difference_update"}
MUTABLE_CTORS = {"dict", "list", "set", "defaultdict", "OrderedDict", "Counter", "deque", "WeakKeyDictionary", "WeakValueDictionary", "WeakSet", "bytearray", "local"}
MEMO_DECORATORS = {"lru_cache", "cache", "cached_property", "singledispatch"}
# module-level functions / methods that own a module-level table (each under its own contract: C14/C15 runtime tables, C15 lock table)
GLOBAL_MUTATORS = {
    ("labrea.overload", "_get_lock"): {"_LOCKS"},
    ("labrea.runtime", "current_runtime"): {"_RUNTIMES"}, ("labrea.runtime", "handle_by_default"): {"_DEFAULT_HANDLERS"},
    ("labrea.runtime", "inherit"): {"_RUNTIMES"}, ("labrea.runtime", "Runtime.__enter__"): {"_RUNTIMES", "_PREVIOUS"},
    ("labrea.runtime", "Runtime.__exit__"): {"_RUNTIMES", "_PREVIOUS"},
}


def _root(n):
    depth = 0
    while isinstance(n, (ast.Attribute, ast.Subscript)):
        n = n.value
        depth += 1
    return (n.id if isinstance(n, ast.Name) else None), depth


def _first_attr(n):
    """the attribute of the root name through which the chain goes: self.<attr>...."""
    last = None
    while isinstance(n, (ast.Attribute, ast.Subscript)):
        if isinstance(n, ast.Attribute):
            last = n.attr
        n = n.value
    return last


def mutable_globals(m):
    out = set()
    for n, v in m.assigns.items():
        if n.startswith("__") and n.endswith("__"):
            continue
        if isinstance(v, (ast.Dict, ast.List, ast.Set, ast.DictComp, ast.ListComp, ast.SetComp)):
            out.add(n)
        elif isinstance(v, ast.Call):
            f = v.func
            nm = f.id if isinstance(f, ast.Name) else (f.attr if isinstance(f, ast.Attribute) else None)
            if nm in MUTABLE_CTORS:
                out.add(n)
    return out


def global_obligations(repo):
    """no function or method of any module changes a module-level container (a process-wide memo / interning table) except the declared owners
    of the runtime and lock tables; no function is wrapped in a memoising decorator"""
    out = []
    for m in repo.modules.values():
        globs = mutable_globals(m)
        fns = [(name, fn) for name, fn in m.functions.items()]
        for ci in m.classes.values():
            fns += [(f"{ci.name}.{name}", fn) for name, fn in ci.methods.items()]
        bad = []
        for qual, fn in fns:
            allowed = GLOBAL_MUTATORS.get((m.name, qual), set())
            for n in ast.walk(fn):
                if isinstance(n, (ast.FunctionDef, ast.AsyncFunctionDef)):
                    for d in n.decorator_list:
                        dn = d.func if isinstance(d, ast.Call) else d
                        nm = dn.id if isinstance(dn, ast.Name) else (dn.attr if isinstance(dn, ast.Attribute) else None)
                        if nm in MEMO_DECORATORS:
                            bad.append(f"{qual}: @{nm}")
                if isinstance(n, ast.Global):
                    bad.append(f"{qual}: {ast.unparse(n)}")
                if isinstance(n, ast.Call) and isinstance(n.func, ast.Attribute) and n.func.attr in MUT_METHODS:
                    r, _ = _root(n.func.value)
                    if r in globs and r not in allowed and not _shadowed(fn, r):
                        bad.append(f"{qual}: {ast.unparse(n)[:60]}")
                if isinstance(n, ast.Subscript) and isinstance(n.ctx, (ast.Store, ast.Del)):
                    r, _ = _root(n.value)
                    if r in globs and r not in allowed and not _shadowed(fn, r):
                        bad.append(f"{qual}: {ast.unparse(n)[:60]}")
                if isinstance(n, ast.AugAssign) and isinstance(n.target, ast.Name) and n.target.id in globs and not _shadowed(fn, n.target.id):
                    bad.append(f"{qual}: {ast.unparse(n)[:60]}")
        out.append({"name": f"{m.name}:frame:no-process-wide-table", "ok": not bad, "detail": "; ".join(bad)[:200], "group": f"{m.name.split('.')[-1]}:globals-frame"})
    return out


def _shadowed(fn, name):
    """the name is a parameter or plainly assigned local of fn (then it is not the module-level container)"""
    a = fn.args
    params = {x.arg for x in a.posonlyargs + a.args + a.kwonlyargs} | ({a.vararg.arg} if a.vararg else set()) | ({a.kwarg.arg} if a.kwarg else set())
    if name in params:
        return True
    for n in ast.walk(fn):
        if isinstance(n, ast.Name) and isinstance(n.ctx, ast.Store) and n.id == name:
            return True
    return False


def obligations(repo):
    out = []
    for m in repo.modules.values():
        for ci in m.classes.values():
            relevant = ci.name == "MemoryCache" or any(repo.is_subclass(ci, b) for b in ("Evaluatable", "Cacheable", "Validatable", "Explainable", "Effect", "Cache"))
            if not relevant:
                continue
            for name, fn in ci.methods.items():
                qual = f"{ci.name}.{name}"
                if name in CTORS or (qual in MUTATORS and MUTATORS[qual] is None):
                    continue
                allowed = MUTATORS.get(qual, set())
                recv = fn.args.args[0].arg if fn.args.args else "self"
                bad = []
                for n in ast.walk(fn):
                    if isinstance(n, (ast.Global, ast.Nonlocal)):
                        bad.append(ast.unparse(n))
                    elif isinstance(n, ast.Attribute) and isinstance(n.ctx, (ast.Store, ast.Del)) and isinstance(n.value, ast.Name) and n.value.id in (recv, "cls"):
                        if n.attr not in allowed:
                            bad.append(ast.unparse(n))
                    elif isinstance(n, ast.Subscript) and isinstance(n.ctx, (ast.Store, ast.Del)) and isinstance(n.value, ast.Attribute) \
                            and isinstance(n.value.value, ast.Name) and n.value.value.id in (recv, "cls"):
                        if n.value.attr + "[]" not in allowed:
                            bad.append(ast.unparse(n))
                    elif isinstance(n, ast.Call) and isinstance(n.func, ast.Name) and n.func.id in ("setattr", "delattr") and n.args \
                            and isinstance(n.args[0], ast.Name) and n.args[0].id in (recv, "cls"):
                        bad.append(ast.unparse(n))
                    elif isinstance(n, ast.Call) and isinstance(n.func, ast.Attribute) and n.func.attr in MUT_METHODS:
                        # a container reached through a field of the receiver is changed in place (self._seen.add(x), self.memo.setdefault(..))
                        r, depth = _root(n.func.value)
                        if r in (recv, "cls") and depth >= 1 and _first_attr(n.func.value) not in allowed and _first_attr(n.func.value) + "[]" not in allowed:
                            bad.append(ast.unparse(n)[:60])
                    elif isinstance(n, ast.AugAssign) and isinstance(n.target, (ast.Attribute, ast.Subscript)):
                        r, depth = _root(n.target)
                        if r in (recv, "cls") and depth >= 1 and _first_attr(n.target) not in allowed and _first_attr(n.target) + "[]" not in allowed:
                            bad.append(ast.unparse(n)[:60])
                out.append({"name": f"{qual}:frame:no-hidden-state", "ok": not bad, "detail": "; ".join(bad)[:160], "group": f"{ci.name}:frame"})
    return out + global_obligations(repo)
