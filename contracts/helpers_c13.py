"""The helper steps of labrea.functions under contract (C13: "each of which computes the corresponding Python operation with the documented operand order").

SPEC gives, per helper, the documented Python operation as a function of the step's input x and the helper's (evaluated) arguments a0, a1, ... (va for *args,
kw for **kwargs).  The obligation per helper: the step function the REAL constructor builds - read off its AST on every run by reducing
`PipelineStep(partial(F, *pos, **kw), ...)` to  x -> F(*pos, x, **kw)  and substituting into F when F is a lambda - is the SPEC expression, up to renaming
of bound names and of single-use temporaries.  Helpers built from other helpers are specified as that composition.  A step function that is no longer
literally the specified operation is NOT a violation by itself: it is then compared with the specification on the typed value universe below (bounded,
harness/helper_search.py); a difference found there is the violation (with its input), no difference leaves the helper UNDECIDED.

What this assumes: Python's operators and builtins mean what they mean (they are not modelled); PartialApplication evaluates its bound arguments from the
options and calls functools.partial(F, *pos, **kw)(x) (interface laws of PartialApplication, proved in the same bundle); `Evaluatable.ensure(a)` is `a`
evaluated (C05 constructor obligations)."""
from __future__ import annotations

import ast
import copy

from .common import inline_lets

# helper -> specification: the value of  helper(a0, a1, ...).transform(x, o)  with a_i evaluated under o
SPEC = {
    "partial": "PartialApplication(a0, *va, **kw)",
    "map": "builtins.map(a0, x)",
    "filter": "builtins.filter(a0, x)",
    "reduce": "_reduce(a0, x, initial=a1)",
    "_reduce": "def _(a0, a1, a2):\n    if a2 is MISSING:\n        return functools.reduce(a0, a1)\n    return functools.reduce(a0, a1, a2)",
    "into": "STEP: pipeline_step(def _(l0, l1=a0):\n    return l1(**l0) if isinstance(l0, Mapping) else l1(*l0))",
    "_flatten": "def _(a0):\n    return itertools.chain.from_iterable(a0)",
    "flatten": "CONST: PipelineStep(Evaluatable.ensure(_flatten), 'flatten')",
    "flatmap": "STEP: map(a0) + itertools.chain.from_iterable",
    "map_items": "STEP: Pipeline() + (lambda l0: l0.items()) + map(into(a0)) + dict + MappingProxyType",
    "map_keys": "STEP: map_items(partial(lambda l0, l1, l2: (l2(l0), l1), l2=a0))",
    "map_values": "STEP: map_items(partial(lambda l0, l1, l2: (l0, l2(l1)), l2=a0))",
    "filter_items": "STEP: Pipeline() + (lambda l0: l0.items()) + filter(into(a0)) + dict + MappingProxyType",
    "filter_keys": "STEP: filter_items(partial(lambda l0, l1, l2: l2(l0), l2=a0))",
    "filter_values": "STEP: filter_items(partial(lambda l0, l1, l2: l2(l1), l2=a0))",
    "concat": "itertools.chain(x, a0)",
    "append": "STEP: concat(collections.evaluatable_tuple(Evaluatable.ensure(a0)))",
    "intersect": "set(x) & set(a0)",
    "union": "set(x) | set(a0)",
    "difference": "set(x) - set(a0)",
    "symmetric_difference": "set(x) ^ set(a0)",
    "_get": "def _(a0, a1, a2):\n    try:\n        return a0[a1]\n    except (KeyError, IndexError) as e:\n        if a2 is MISSING:\n            raise e\n        return a2",
    "get": "_get(x, key=a0, default=a1)",
    "get_from": "_get(a0, x, default=a1)",
    "add": "x + a0",
    "subtract": "x - a0",
    "multiply": "x * a0",
    "left_multiply": "a0 * x",
    "divide_by": "x / a0",
    "divide_into": "a0 / x",
    "_negate": "def _(a0):\n    return -a0",
    "negate": "CONST: PipelineStep(Evaluatable.ensure(_negate), 'negate')",
    "modulo": "x % a0",
    "merge": "{**x, **a0}",
    "length": "CONST: PipelineStep(Evaluatable.ensure(len), 'length')",
    "instance_of": "isinstance(x, tuple(va))",
    "all": "builtins.all((l0(x) for l0 in tuple(va)))",
    "any": "builtins.any((l0(x) for l0 in tuple(va)))",
    "invert": "not a0(x)",
    "eq": "x == a0",
    "ne": "x != a0",
    "gt": "x > a0",
    "ge": "x >= a0",
    "lt": "x < a0",
    "le": "x <= a0",
    "has_remainder": "x % a0 == a1",
    "positive": "CONST: gt(0)",
    "negative": "CONST: lt(0)",
    "non_positive": "CONST: le(0)",
    "non_negative": "CONST: ge(0)",
    "even": "CONST: has_remainder(2, 0)",
    "odd": "CONST: has_remainder(2, 1)",
    "is_none": "CONST: PipelineStep(Evaluatable.ensure(lambda l0: l0 is None), 'is_none')",
    "is_not_none": "CONST: PipelineStep(invert(is_none), 'is_not_none')",
    "is_in": "x in a0",
    "is_not_in": "STEP: invert(is_in(a0))",
    "one_of": "x in tuple(va)",
    "none_of": "STEP: invert(one_of(*va))",
    "contains": "a0 in x",
    "does_not_contain": "STEP: invert(contains(a0))",
    "intersects": "STEP: intersect(a0) + bool",
    "disjoint_from": "STEP: invert(intersects(a0))",
    "_ensure": "def _(a0, a1, a2):\n    assert a1(a0), a2\n    return a0",
    "ensure": "_ensure(x, predicate=a0 ..., msg=a1 ...)",
    "get_attribute": "getattr(x, a0)",
    "_call_method": "def _(a0, a1, a2, a3):\n    return getattr(a3, a0)(*a1, **a2)",
    "call_method": "_call_method(a0, va, kw, x)",
}
# the default value of a helper parameter is part of its meaning (MISSING = "no default": the lookup error propagates)
DEFAULTS = {"reduce": {"a1": "MISSING"}, "get": {"a1": "MISSING"}, "get_from": {"a1": "MISSING"}, "invert": {"a0": "lambda l0: l0"}, "ensure": {"a1": "MISSING"}}


class _Rename(ast.NodeTransformer):
    def __init__(self, m):
        self.m = m

    def visit_Name(self, n):
        return ast.copy_location(ast.Name(id=self.m.get(n.id, n.id), ctx=n.ctx), n)

    def visit_arg(self, n):
        n = copy.copy(n)
        n.arg = self.m.get(n.arg, n.arg)
        n.annotation = None
        return n

    def visit_ExceptHandler(self, n):
        n = self.generic_visit(n)
        return n


def _alpha(node, start=0):
    """bound names of lambdas / comprehensions -> l0, l1, ... in order of appearance"""
    node = copy.deepcopy(node)
    counter = [start]

    def walk(n, out=None):
        if isinstance(n, ast.Call) and isinstance(n.func, ast.Name) and n.func.id == "partial" and n.args and isinstance(n.args[0], ast.Lambda):
            # partial(lambda .., name=..): the keyword names ARE the lambda's parameter names
            m = {}
            walk(n.args[0], m)
            for k in n.keywords:
                if k.arg in m:
                    k.arg = m[k.arg]
            for c in n.args[1:] + [k.value for k in n.keywords]:
                walk(c)
            return
        if isinstance(n, ast.Lambda):
            a = n.args
            m = {}
            for x in a.posonlyargs + a.args + a.kwonlyargs:
                m[x.arg] = f"l{counter[0]}"
                counter[0] += 1
            if out is not None:
                out.update(m)
            n.args = _Rename(m).visit(a)
            n.body = _Rename(m).visit(n.body)
            for d in n.args.defaults:
                walk(d)
            walk(n.body)
            return
        if isinstance(n, (ast.GeneratorExp, ast.ListComp, ast.SetComp, ast.DictComp)):
            m = {}
            for g in n.generators:
                for t in ast.walk(g.target):
                    if isinstance(t, ast.Name):
                        m[t.id] = f"l{counter[0]}"
                        counter[0] += 1
            for f in n._fields:
                v = getattr(n, f)
                if isinstance(v, list):
                    setattr(n, f, [_Rename(m).visit(x) for x in v])
                elif isinstance(v, ast.AST):
                    setattr(n, f, _Rename(m).visit(v))
        for c in ast.iter_child_nodes(n):
            walk(c)
    walk(node)
    return node


def _strip(node):
    """annotations off; `Evaluatable.ensure(e)` stays (it is what makes an argument option-valued) except directly under partial(...) where the reduction removes it"""
    for n in ast.walk(node):
        if isinstance(n, ast.arg):
            n.annotation = None
        if isinstance(n, ast.FunctionDef):
            n.returns = None
    return node


def _param_map(fn):
    a = fn.args
    m = {}
    for i, x in enumerate(a.posonlyargs + a.args + a.kwonlyargs):
        m[x.arg] = f"a{i}"
    if a.vararg:
        m[a.vararg.arg] = "va"
    if a.kwarg:
        m[a.kwarg.arg] = "kw"
    return m


def _defaults(fn):
    a = fn.args
    names = [x.arg for x in a.posonlyargs + a.args]
    out = {}
    for n, d in zip(names[len(names) - len(a.defaults):], a.defaults):
        out[n] = d
    for x, d in zip(a.kwonlyargs, a.kw_defaults):
        if d is not None:
            out[x.arg] = d
    return out


def _is_ensure(c):
    return isinstance(c, ast.Call) and ast.unparse(c.func) in ("Evaluatable.ensure",) and len(c.args) == 1 and not c.keywords


def _evaluated(e):
    """the evaluated form of a bound argument: ensure(a) -> a ; evaluatable_tuple(*map(ensure, va)) -> tuple(va)"""
    if _is_ensure(e):
        return e.args[0], ""
    if isinstance(e, ast.Call) and ast.unparse(e.func) == "collections.evaluatable_tuple" and len(e.args) == 1 and isinstance(e.args[0], ast.Starred):
        inner = e.args[0].value
        if isinstance(inner, ast.Call) and ast.unparse(inner.func) == "builtins.map" and len(inner.args) == 2 and ast.unparse(inner.args[0]) == "Evaluatable.ensure":
            return ast.parse(f"tuple({ast.unparse(inner.args[1])})", mode="eval").body, ""
    return e, ""


def reduce_step(step):
    """PipelineStep(partial(F, *pos, **kw)) : x -> F(*pos, x, **kw); with F a lambda the call is beta-reduced.  Returns the text of the operation on x or None"""
    if not (isinstance(step, ast.Call) and isinstance(step.func, ast.Name) and step.func.id == "partial" and step.args):
        return None
    F, pos, kws = step.args[0], step.args[1:], step.keywords
    if any(isinstance(p, ast.Starred) for p in pos) or any(k.arg is None for k in kws):
        return None
    pos = [_evaluated(p)[0] for p in pos]
    kwv = {k.arg: _evaluated(k.value)[0] for k in kws}
    X = ast.Name(id="x", ctx=ast.Load())
    if isinstance(F, ast.Lambda):
        a = F.args
        if a.vararg or a.kwarg or a.kwonlyargs or a.defaults:
            return None
        names = [p.arg for p in a.posonlyargs + a.args]
        bind = {}
        for n, v in zip(names, pos):
            bind[n] = v
        rest = [n for n in names[len(pos):] if n not in kwv]
        if len(rest) != 1 or any(k not in names for k in kwv):
            return None            # the input is not the one unbound parameter
        if names.index(rest[0]) != len(pos):
            return None
        bind[rest[0]] = X
        bind.update(kwv)

        class Sub(ast.NodeTransformer):
            def visit_Name(self, n):
                return copy.deepcopy(bind[n.id]) if n.id in bind and isinstance(n.ctx, ast.Load) else n
        return Sub().visit(copy.deepcopy(F.body))
    if isinstance(F, (ast.Name, ast.Attribute)):
        return ast.Call(func=copy.deepcopy(F), args=list(pos) + [X], keywords=[ast.keyword(arg=k, value=v) for k, v in kwv.items()])
    return None


def canonical(fn):
    """the operation a helper constructor's step computes, as text over x, a0, a1, va, kw (see module docstring); ('?', reason) when the constructor has left the shape"""
    fn = inline_lets(fn)
    m = _param_map(fn)
    body = [s for s in fn.body if not (isinstance(s, ast.Expr) and isinstance(s.value, ast.Constant))]
    ren = lambda node: _Rename(m).visit(_alpha(copy.deepcopy(node)))     # noqa  (bound names first: a lambda parameter may shadow a helper parameter)
    rets = [s for s in body if isinstance(s, ast.Return)]
    pre = [s for s in body if not isinstance(s, (ast.Return,))]
    if len(rets) != 1 or body[-1] is not rets[0]:
        return None
    r = rets[0].value
    if not (isinstance(r, ast.Call) and isinstance(r.func, ast.Name) and r.func.id == "PipelineStep" and r.args):
        if not pre:
            return ast.unparse(ren(_strip(r)))
        return None
    step = r.args[0]
    # nested decorated def (into): fold into the step
    defs = [s for s in pre if isinstance(s, ast.FunctionDef)]
    other = [s for s in pre if not isinstance(s, ast.FunctionDef)]
    if defs and len(defs) == 1 and isinstance(step, ast.Name) and step.id == defs[0].name and not other:
        d = _Rename(m).visit(_strip(copy.deepcopy(defs[0])))
        pm = {}
        for i, x in enumerate(d.args.posonlyargs + d.args.args):
            pm[x.arg] = f"l{i}"
        d = _Rename(pm).visit(d)
        d.name = "_"
        decs = [ast.unparse(x) for x in d.decorator_list]
        d.decorator_list = []
        txt = ast.unparse(d)
        for dec in reversed(decs):
            txt = f"{dec}({txt})"
        return "STEP: " + txt
    if other:
        # reassigned parameters (ensure's message default): keep the statements, they are part of the operation
        red = reduce_step(step)
        if red is None:
            return None
        extra = "; ".join(ast.unparse(ren(s)) for s in other)
        return ast.unparse(ren(red)) + " WHERE " + extra
    red = reduce_step(step)
    if red is not None:
        return ast.unparse(ren(red))
    return "STEP: " + ast.unparse(ren(_strip(copy.deepcopy(step))))


def canonical_def(fn):
    m = _param_map(fn)
    d = _strip(copy.deepcopy(fn))
    d.body = [s for s in d.body if not (isinstance(s, ast.Expr) and isinstance(s.value, ast.Constant))]
    d = _Rename(m).visit(d)
    d.name = "_"
    d.decorator_list = []
    return ast.unparse(_alpha(d))


def _norm(s):
    try:
        if s.startswith(("STEP: ", "CONST: ")):
            tag, rest = s.split(": ", 1)
            if rest.startswith("pipeline_step(def"):
                return s
            return tag + ": " + ast.unparse(ast.parse(rest, mode="eval"))
        if s.startswith("def "):
            return ast.unparse(ast.parse(s))
        if " WHERE " in s or "..." in s:
            return s
        return ast.unparse(ast.parse(s, mode="eval"))
    except SyntaxError:
        return s


ENSURE_SPEC = "_ensure(x, predicate=a0, msg=a1) WHERE a1 = a1 if a1 is not MISSING else f'Predicate {a0!r} failed'"


def obligations(repo):
    """returns (syntactic obligations, undecided [(function, reasons)], helpers whose step is no longer literally the specification)"""
    m = repo.module("functions")
    syn, und, drifted = [], [], []
    seen = set()

    def ob(name, ok, detail=""):
        syn.append({"name": f"helpers:C13:{name}", "ok": bool(ok), "detail": str(detail)[:200], "group": "helpers:C13"})
    # every public helper is specified (a new helper without a specification is not silently outside the contract)
    public = [n for n in m.functions if not n.startswith("_")]
    consts = [n for n, v in m.assigns.items() if isinstance(v, ast.Call) and not (isinstance(v.func, ast.Name) and v.func.id in ("TypeVar", "ParamSpec"))]
    for n in public + consts:
        if n not in SPEC:
            und.append((f"functions.{n}", ["helper without a specification in contracts/helpers_c13.py"]))
    for name, spec in SPEC.items():
        seen.add(name)
        if name in m.functions:
            fn = m.functions[name]
            if spec.startswith("def "):
                got = canonical_def(fn)
            else:
                got = canonical(fn)
            want = ENSURE_SPEC if name == "ensure" else spec
            if got is None:
                drifted.append(name)
                continue
            if _norm(got) != _norm(want):
                drifted.append(name)
                continue
            ob(f"{name}:computes-the-documented-operation", True, _norm(got)[:120])
            dm = _param_map(fn)
            have = {dm[k]: ast.unparse(_alpha(v)) for k, v in _defaults(fn).items()}
            want_d = DEFAULTS.get(name, {})
            if have != {k: _norm(v) for k, v in want_d.items()}:
                drifted.append(name)
                syn.pop()
        elif name in m.assigns:
            got = "CONST: " + ast.unparse(_alpha(_strip(copy.deepcopy(m.assigns[name]))))
            if _norm(got) != _norm(spec):
                drifted.append(name)
                continue
            ob(f"{name}:is-the-documented-step", True, got[:120])
        else:
            drifted.append(name)
    return syn, und, drifted


if __name__ == "__main__":
    import os
    import sys
    sys.path.insert(0, os.path.dirname(os.path.dirname(os.path.abspath(__file__))))
    from pyvc.extract import Repo
    r = Repo(os.environ.get("LABREA_SRC", "/repo/labrea"))
    m = r.module("functions")
    for n, fn in m.functions.items():
        print(repr(n), "->", repr(canonical_def(fn) if n.startswith("_") else canonical(fn)))
    s, u, d = obligations(r)
    print(len(s), u, d)
