"""C07, interface half (structural): Implementation.__init__ rejects before it registers.

"an implementation that omits an abstract member or names an unknown one is rejected when it is defined and registers nothing":
on the real AST of Implementation.__init__ (and the helpers it calls before registering) every statement that can reject (a `raise`, a call of a
helper that contains a `raise`) comes before the first statement that registers (`<member>.register(...)` / setattr on the class), and the statements
from the first registration on contain no `raise` and call no helper that can raise.  Which members are rejected (abstract and not overloaded; unknown
names) is read off the two guards.  The metaclass protocol itself (type.__init__, new_class) is trusted."""
from __future__ import annotations

import ast


def obligations(repo):
    out, und = [], []
    m = repo.module("interface")
    ci = m.classes.get("Implementation") if m else None

    def ob(name, ok, detail=""):
        out.append({"name": f"Implementation:C07:{name}", "ok": bool(ok), "detail": str(detail)[:200], "group": "Implementation:C07"})
    init = ci.methods.get("__init__") if ci else None
    if init is None:
        return [], [("Implementation.__init__", ["not found"])]
    helpers = {n: f for n, f in m.functions.items()}

    def can_raise(node):
        for n in ast.walk(node):
            if isinstance(n, ast.Raise):
                return True
            if isinstance(n, ast.Call) and isinstance(n.func, ast.Name) and n.func.id in helpers and any(isinstance(x, ast.Raise) for x in ast.walk(helpers[n.func.id])):
                return True
        return False

    def registers(node):
        for n in ast.walk(node):
            if isinstance(n, ast.Call) and isinstance(n.func, ast.Attribute) and n.func.attr == "register":
                return True
            if isinstance(n, ast.Call) and isinstance(n.func, ast.Name) and n.func.id == "setattr":
                return True
        return False
    body = [s for s in init.body if not (isinstance(s, ast.Expr) and isinstance(s.value, ast.Constant))]
    first_reg = next((i for i, s in enumerate(body) if registers(s)), None)
    ob("registers-something", first_reg is not None)
    if first_reg is None:
        return out, und
    late = [ast.unparse(s)[:60] for s in body[first_reg:] if can_raise(s)]
    ob("nothing-rejects-once-registration-has-started", not late, late)
    early_regs = [ast.unparse(s)[:60] for s in body[:first_reg] if registers(s)]
    ob("nothing-registers-before-every-check-has-passed", not early_regs and any(can_raise(s) for s in body[:first_reg]), early_regs)
    # the guard for omitted abstract members: `if member.is_abstract and key not in overloads: raise TypeError`
    guards = []
    for s in body[:first_reg]:
        for n in ast.walk(s):
            if isinstance(n, ast.If) and any(isinstance(x, ast.Raise) for x in n.body):
                guards.append(ast.unparse(n.test))
    # the name bound to the result of _build_overloads(...) (whatever it is called)
    ovl_names = {n.targets[0].id for n in ast.walk(init) if isinstance(n, ast.Assign) and len(n.targets) == 1 and isinstance(n.targets[0], ast.Name)
                 and isinstance(n.value, ast.Call) and isinstance(n.value.func, ast.Name) and n.value.func.id == "_build_overloads"}
    ob("omitted-abstract-member-is-rejected", any(".is_abstract" in g and any(f"not in {o}" in g for o in ovl_names) for g in guards), guards)
    bo = helpers.get("_build_overloads")
    unk = []
    if bo is not None:
        for n in ast.walk(bo):
            if isinstance(n, ast.If) and any(isinstance(x, ast.Raise) for x in n.body):
                unk.append(ast.unparse(n.test))
    mem_param = bo.args.args[1].arg if bo is not None and len(bo.args.args) > 1 else "members"
    ob("unknown-member-name-is-rejected", any(f"not in {mem_param}" in g for g in unk), unk)
    # helpers called before registration register nothing themselves
    bad = [n for n, f in helpers.items() if n in ("_get_members", "_build_overloads") and registers(f)]
    ob("helpers-register-nothing", not bad, bad)
    return out, und
