"""Obligations of the Evaluatable interface contract (DESIGN.md section 4) for one class:
the real method bodies of the class are run symbolically (children by contract only) and the
law is stated over the resulting paths."""
from __future__ import annotations

import z3

from pyvc import theory as T
from pyvc.values import *  # noqa
from pyvc.symex import explore, litkey_facts, PyRaise
from pyvc.solve import VC

O1 = z3.Const("o", T.Opt)
O2 = z3.Const("o2", T.Opt)
SELF = z3.Const("self", T.Ev)

# class invariants established by constructors (sidecar; each is an obligation on __init__ elsewhere)
def _template_inv(s):
    """every ':name:' placeholder of the text is bound by a parameter (Template.__init__ raises ValueError otherwise): obligation Template:init"""
    k = z3.Const("k!inv", T.Key)
    tpl = z3.Function("fld!Template.template", T.Ev, T.Val)(s)
    hasp = z3.Function("fld!Template.params#has", T.Ev, T.Val, T.B)
    return [z3.ForAll([k], z3.Implies(z3.And(z3.IsMember(k, T.tkeys(tpl)), T.isparam(k)), hasp(s, T.val_of_key(T.pname(k)))),
                      patterns=[z3.IsMember(k, T.tkeys(tpl))])]


CLASS_INV = {
    "Coalesce": lambda s: [z3.Function("fld!Coalesce.members#n", T.Ev, T.I)(s) >= 1],
    "Template": _template_inv,
}
# theory only some classes need (kept out of the other proofs)
CLASS_THEORY = {"Template": lambda: T.template_axioms(), "Map": lambda: T.map_iter_axioms()}

# per-class executor configuration: which temporaries are used through their class contract
ABSTRACT = {
    "default": ("Option", "Template"),
    # Dataset._composed is a tower of verified classes: each level is used through its class contract (compositional proof);
    # that the tower has the shape the statement requires is a separate structural obligation (contracts/dataset_tower.py)
    "Dataset": "*",
    "Option": (),
    "Template": ("Option",),
}


def fld_ev(cls, name):
    return z3.Function(f"fld!{cls}.{name}", T.Ev, T.Ev)(SELF)


def seq_at(cls, name):
    n = z3.Function(f"fld!{cls}.{name}#n", T.Ev, T.I)(SELF)
    at = z3.Function(f"fld!{cls}.{name}#at", T.Ev, T.I, T.Ev)
    return n, (lambda i: at(SELF, i))


def _stablefail(e):
    """H-stablefail(e): if e cannot be evaluated under o it cannot under the pruning o2 either"""
    return z3.Implies(z3.Not(T.EVok(e, O1)), z3.Not(T.EVok(e, O2)))


def _region_coalesce():
    n, at = seq_at("Coalesce", "members")
    i = z3.Const("i!reg", T.I)
    m = at(i)
    rng = z3.And(i >= 0, i < n)
    return [z3.ForAll([i], z3.Implies(rng, z3.And(_stablefail(m),
                                                  z3.Implies(z3.Not(T.VLok(m, O1)), z3.Not(T.VLok(m, O2))),
                                                  z3.Implies(T.VLok(m, O1), T.EVok(m, O1)),
                                                  z3.Implies(T.VLok(m, O2), T.EVok(m, O2)))), patterns=[at(i)])]


def _region_effect(cls):
    e = fld_ev(cls, "effect")
    v = z3.Const("v!reg", T.Val)
    o = z3.Const("o!reg", T.Opt)
    return [z3.ForAll([v, o], T.TFok(e, v, o), patterns=[T.TFok(e, v, o)]), z3.ForAll([o], T.VLok(e, o), patterns=[T.VLok(e, o)])]


# known-finding regions (DESIGN 10.3): the law is proved on the complement of the recorded region, i.e. with these extra
# hypotheses; the recorded witness of each finding is replayed on the real code by the check.
REGIONS = {
    "Switch": [("F18", "a dispatch that cannot be evaluated under o can under the pruning (fallback to default)",
                lambda: [_stablefail(fld_ev("Switch", "dispatch"))])],
    "Overloaded": [("F18", "a dispatch that cannot be evaluated under o can under the pruning (fallback to default)",
                    lambda: [_stablefail(fld_ev("Overloaded", "dispatch"))])],
    "Coalesce": [("F19", "a member that fails (or validates but cannot be evaluated) contributes no keys (F10, F19, F21)", _region_coalesce)],
    "Computation": [("F15", "an effect whose outcome depends on the options (its options are not part of keys)", lambda: _region_effect("Computation"))],
}


def _region_withoptions_defaults():
    force = z3.Function("fld!WithOptions.force", T.Ev, T.B)(SELF)
    P = z3.Function("fld!WithOptions.options", T.Ev, T.Opt)(SELF)
    return [z3.Implies(z3.Not(force), z3.And(T.noshadow(O1, P), T.noshadow(O2, P)))]


def _region_withoptions_explain():
    force = z3.Function("fld!WithOptions.force", T.Ev, T.B)(SELF)
    P = z3.Function("fld!WithOptions.options", T.Ev, T.Opt)(SELF)
    return [z3.Implies(force, T.noshadow(P, O1))]


def _region_map_explain():
    ev = fld_ev("Map", "evaluatable")
    return [z3.Implies(z3.And(T.ITERok(SELF, O1), T.EXok(ev, O1)), T.EXok(T.ITERv(SELF, O1), O1))]


T.assume("A-map-explain", "Map.explain: when the iterables evaluate and the mapped expression can be explained under the caller's options, the per-combination "
         "expressions can be explained too (the static fallback of Map.explain is then not taken); the fallback taken when an iterable cannot be evaluated IS covered")
REGIONS["Map"] = [("A-map-explain", "the per-combination expressions cannot be explained although the mapped expression can (unproved case of the static explain fallback, not a known defect)",
                   _region_map_explain, ("L5", "L5b"))]
REGIONS["Template"] = [("F31", "an option value that refers to a ':name:' parameter of the template (A-noparam)", lambda: [T.noparam(O1), T.noparam(O2)])]
REGIONS["WithOptions"] = [
    ("F24", "a scalar in the caller's options where the default options hold a section (the scalar shadows the defaults below it)",
     _region_withoptions_defaults, None),
    ("F24", "a pre-set scalar where the caller's options hold a section: explain lists caller keys the pre-set scalar hides",
     _region_withoptions_explain, ("L5", "L5b", "L6k")),
]


# validate() of these classes consults cache state (a warm entry short-cuts validation): restriction-stability of validate
# is stated for them only through evaluate (C10), not as part of L2
STATEFUL_VALIDATE = ("Cached", "Dataset")
# evaluate() of a dataset class instantiates it (metaclass call): specified separately (contracts/datasetclass_c19.py + bounded search)
NO_EVALUATE = ("_DatasetClassMeta",)


def _region_dataset_effects():
    n, at = seq_at("Dataset", "effects")
    i = z3.Const("i!reg", T.I)
    v = z3.Const("v!reg", T.Val)
    o = z3.Const("o!reg", T.Opt)
    e = at(i)
    return [z3.ForAll([i, v, o], z3.Implies(z3.And(i >= 0, i < n), T.TFok(e, v, o)), patterns=[T.TFok(e, v, o)]),
            z3.ForAll([i, o], z3.Implies(z3.And(i >= 0, i < n), T.VLok(e, o)), patterns=[T.VLok(e, o)])]


def _region_dataset_defaults():
    D = z3.Function("fld!Dataset.default_options", T.Ev, T.Opt)(SELF)
    return [T.noshadow(O1, D), T.noshadow(O2, D)]


def _region_dataset_explain():
    D = z3.Function("fld!Dataset.default_options", T.Ev, T.Opt)(SELF)
    P = z3.Function("fld!Dataset.options", T.Ev, T.Opt)(SELF)
    return [T.noshadow(P, T.mix(D, O1))]


def region_hyps(C, law=None):
    out = []
    for ent in REGIONS.get(C, []):
        fid, text, mk = ent[:3]
        only = ent[3] if len(ent) > 3 else None
        if only is None or law in only:
            out += mk()
    return out


def observe(ex, v):
    """turn a result into a comparable term inside the run (so that forcing/observing forks are enumerated)"""
    if isinstance(v, Delayed):
        ex.tags.append(("after-return",))
        v = ex.force(v)
    if v is None:
        return ("none", None)
    if isinstance(v, KSetV):
        return ("kset", ex.kset_term(v))
    if isinstance(v, PyFunc) and v.env is not None:
        # closures are compared extensionally: apply to a shared fresh argument
        x = Sym("val", z3.Const("x!obs", T.Val))
        ex.tags.append(("after-return",))
        r = ex.call(v, [x], {})
        return observe(ex, r)
    if isinstance(v, Obj) and not v.is_exc and v.cls is not None and not ex.repo.is_subclass(v.cls, "Evaluatable"):
        # plain value objects (Arguments) are compared field-wise
        names = sorted(v.fields)
        f = z3.Function("mkval_" + v.cls.name + "#" + ",".join(names), *([T.Val] * len(names)), T.Val)
        return ("val", f(*[ex.as_val(v.fields[n]) for n in names]))
    return ("val", ex.as_val(v))


def after_return(p):
    return any(t[0] == "after-return" for t in p.tags)


def user_raise(p):
    return any(t[0] == "user-raise" for t in p.tags)


T.assume("A-flags", "the LABREA.* switch options (LABREA.CACHE.DISABLED/DISABLE, LABREA.EFFECTS.DISABLED, LABREA.LOGGING.DISABLED), "
         "when present, hold plain JSON booleans: reading a switch never fails")


def option_contract_facts(t, kterm, o):
    """keys/explain of an Option WITHOUT default and domain, as a function of the dictionary (proved on the real bodies: group Option:contract)"""
    g = T.get(o, kterm)
    q = z3.Const("q!oc", T.Key)
    kx = T.KSexc(t, o)
    return [
        T.KSok(t, o) == z3.And(T.has(o, kterm), T.TKok(g, o)),
        z3.Implies(T.KSok(t, o), z3.And(z3.ForAll([q], z3.IsMember(q, T.KSset(t, o)) == z3.Or(q == kterm, z3.IsMember(q, T.TKset(g, o))), patterns=[z3.IsMember(q, T.KSset(t, o))]),
                                        T.subsetP(T.TKset(g, o), T.KSset(t, o)), z3.IsMember(kterm, T.KSset(t, o)))),
        z3.Implies(z3.Not(T.has(o, kterm)), z3.And(T.is_cls["KeyNotFoundError"](kx), T.is_cls["EvaluationError"](kx), T.missing(kx), T.mkey(kx) == kterm, T.exc_key(kx) == kterm)),
        z3.Implies(z3.And(T.has(o, kterm), z3.Not(T.TKok(g, o))), kx == T.TKexc(g, o)),
        T.EXok(t, o),
        z3.ForAll([q], z3.IsMember(q, T.EXset(t, o)) == z3.Or(q == kterm, z3.And(T.has(o, kterm), z3.IsMember(q, T.TXset(g, o)))), patterns=[z3.IsMember(q, T.EXset(t, o))]),
        z3.Implies(T.has(o, kterm), T.subsetP(T.TXset(g, o), T.EXset(t, o))),
    ] + option_value_facts(t, kterm, o)


def option_value_facts(t, kterm, o):
    """evaluate/validate of an Option WITHOUT default, domain and declared type: the looked-up value with its references substituted
    (proved on the real bodies: group Option:contract)"""
    g = T.get(o, kterm)
    ok = z3.And(T.has(o, kterm), T.resolve_ok(g, o))
    rx = T.resolve_exc(g, o)
    out = [T.EVok(t, o) == ok, T.VLok(t, o) == ok, z3.Implies(ok, T.EVval(t, o) == T.resolve_val(g, o))]
    for x in (T.EVexc(t, o), T.VLexc(t, o)):
        out += [
            z3.Implies(z3.Not(T.has(o, kterm)), z3.And(T.is_cls["KeyNotFoundError"](x), T.missing(x), T.mkey(x) == kterm, T.exc_key(x) == kterm)),
            z3.Implies(z3.And(T.has(o, kterm), z3.Not(T.resolve_ok(g, o)), T.is_cls["KeyError"](rx)),
                       z3.And(T.is_cls["KeyNotFoundError"](x), T.missing(x), T.mkey(x) == T.exc_key(rx), T.exc_key(x) == T.exc_key(rx))),
            z3.Implies(z3.And(T.has(o, kterm), z3.Not(T.resolve_ok(g, o)), z3.Not(T.is_cls["KeyError"](rx))), z3.And(z3.Not(T.missing(x)), z3.Not(T.is_cls["KeyNotFoundError"](x)))),
        ]
    return out


def temp_contract(ex, obj, t):
    """facts about temporaries used through their class contract"""
    if obj.cls.name == "Option" and obj.fields.get("default") is MISSING and obj.fields.get("domain") is MISSING and ex.config.get("option_contract"):
        kterm = ex.as_key(obj.fields["key"])
        for o in ex.config["option_contract"]:
            for f in option_contract_facts(t, kterm, o):
                ex.define(f)
    if obj.cls.name == "Option":
        k = obj.fields.get("key")
        if isinstance(k, str) and k.startswith("LABREA."):
            o = z3.Const("o!flag", T.Opt)
            ex.define(z3.ForAll([o], T.EVok(t, o), patterns=[T.EVok(t, o)]))
            ex.flag_terms.add(str(t))


def templated_keys_contract(ex, vars):
    """modular use of option._templated_keys(value, options, explain=False)"""
    v = ex.as_val(vars["value"])
    o = ex.as_opt(vars["options"])
    explain = vars.get("explain", False)
    if explain is True:
        return KSetV([("term", T.TXset(v, o))])
    if explain is not False:
        raise Unsupported("symbolic explain flag")
    if ex.fork(T.TKok(v, o)):
        return KSetV([("term", T.TKset(v, o))])
    ex.do_raise(ExcSym(T.TKexc(v, o), "KeyNotFoundError"))


def get_lock_contract(ex, vars):
    """overload._get_lock(id): the per-instance lock (lock discipline itself is C15's AST obligation)"""
    return LockV("overload-instance-lock")


_MAP_ITER_PRELUDE = None


def map_iter_contract(ex, vars):
    """modular use of Map._iter(options) (contracts/map_iter.py states what is proved about the body):
    evaluates the iterables in order under `options` exactly as the code does (first failure propagates unchanged); then either fails with an
    EvaluationError of this Map that is not a missing-option failure (the values cannot be iterated / combined into option sets), or returns
    an expression that depends on `options` only through the iterables' values"""
    import ast as _ast
    from pyvc.symex import Env
    global _MAP_ITER_PRELUDE
    if _MAP_ITER_PRELUDE is None:
        _MAP_ITER_PRELUDE = _ast.parse("[iterable.evaluate(options) for iterable in self.iterables.values()]", mode="eval").body
    mod = ex.repo.module("iterable")
    ex.eval(_MAP_ITER_PRELUDE, Env(mod, None, {"self": vars["self"], "options": vars["options"]}))
    s = ex.as_ev(vars["self"])
    o = ex.as_opt(vars["options"])
    if ex.fork(T.ITERok(s, o)):
        return Sym("ev", T.ITERv(s, o))
    x = T.ITERexc(s, o)
    for name in ("BaseException", "Exception", "EvaluationError"):
        ex.define(T.is_cls[name](x))
    for name in ("KeyNotFoundError", "KeyError", "InsufficientInformationError"):
        ex.define(z3.Not(T.is_cls[name](x)))
    ex.define(z3.And(T.exc_src(x) == s, z3.Not(T.missing(x)), T.origin(x) != x))
    ex.do_raise(ExcSym(x, "EvaluationError"))


FN_CONTRACTS = {("labrea.option", "_templated_keys"): templated_keys_contract, ("labrea.overload", "_get_lock"): get_lock_contract,
                ("labrea.iterable", "Map._iter"): map_iter_contract}


class Runs:
    def __init__(self, repo, ci, extra_config=None):
        self.repo, self.ci = repo, ci
        self.cache = {}
        from .cache_model import sound_backend
        self.config = {"abstract_classes": ABSTRACT.get(ci.name, ABSTRACT["default"]), "temp_contract": temp_contract,
                       "cache_model": sound_backend, "fn_contracts": FN_CONTRACTS, "reentry_limit": {"WithOptions": 3}}
        if ci.name == "Template":
            self.config["option_contract"] = [O1, O2]
        if extra_config:
            self.config.update(extra_config)

    def paths(self, meth, which=1):
        key = (meth, which)
        if key not in self.cache:
            o = Sym("opt", O1 if which == 1 else O2)
            ci = self.ci

            def run(ex):
                s = ex.sym_self(ci)
                v = ex.call_public(s, meth, [o])
                return observe(ex, v)
            self.cache[key] = explore(self.repo, run, tag=f"{meth[:2]}{which}", config=dict(self.config))
        return self.cache[key]


def base(ci, which=("L1", "L2", "L3", "L4a", "L5", "L5d", "L6", "L6v")):
    hyps = T.base_axioms() + T.child_laws(which) + litkey_facts()
    inv = CLASS_INV.get(ci.name)
    if inv:
        hyps += inv(SELF)
    if ci.name in CLASS_THEORY:
        hyps += CLASS_THEORY[ci.name]()
    hyps += region_hyps(ci.name)
    return hyps


def _option_domain_total():
    """A-total for Option: values lie in the declared domain"""
    d = z3.Function("fld!Option.domain", T.Ev, T.Val)(SELF)
    o = z3.Const("o!dom", T.Opt)
    v = z3.Const("v!dom", T.Val)
    dv = T.EVval(T.ev_of(d), o)
    a = T.pack(T.mkseq(z3.IntVal(1), z3.Store(z3.K(T.I, T.DFLT), 0, v)), T.NOKW)
    return [z3.ForAll([o, v], z3.And(z3.Implies(T.iscallable(dv), T.truthy(T.call_val(dv, a))),
                                     z3.Implies(T.iscontainer(dv), T.contains(dv, v))))]


CLASS_TOTAL = {"Option": _option_domain_total}


def class_total(ci):
    f = CLASS_TOTAL.get(ci.name)
    return f() if f else []


def base_noregion(ci, which=("L1", "L2", "L3", "L4a", "L5", "L5d", "L6", "L6v")):
    hyps = T.base_axioms() + T.child_laws(which) + litkey_facts()
    inv = CLASS_INV.get(ci.name)
    if inv:
        hyps += inv(SELF)
    return hyps


def extra_region(ci, law):
    """region hypotheses that apply to one law only"""
    return [h for ent in REGIONS.get(ci.name, []) if len(ent) > 3 and ent[3] is not None and law in ent[3] for h in ent[2]()]


def pathcond(p):
    return z3.And(*(p.pc + p.defs)) if (p.pc or p.defs) else z3.BoolVal(True)


def exc_term(p):
    return p.value.term


def outcome_equiv(p1, p2):
    if p1.kind != p2.kind:
        return z3.BoolVal(False)
    if p1.kind == "ok":
        k1, t1 = p1.value
        k2, t2 = p2.value
        if k1 != k2:
            return z3.BoolVal(False)
        if k1 == "none":
            return z3.BoolVal(True)
        return t1 == t2
    return T.fail_equiv(exc_term(p1), exc_term(p2))


def unsupported(paths):
    return [p.value for p in paths if p.kind == "unsupported"]


_LAST_RUNS_CACHE = {}     # paths of the last law_vcs run per class (re-used by the reachability obligations of the same worker)


def law_vcs(repo, ci, laws=("L1", "L2", "L3", "L6", "L6v", "L4a", "L5", "L5d", "L4t")):
    """returns (vcs, undecided) for class ci"""
    R = Runs(repo, ci)
    _LAST_RUNS_CACHE[ci.name] = R.cache
    vcs, undecided = [], []
    C = ci.name
    hyp = base(ci)

    def get(meth, which=1):
        ps = R.paths(meth, which)
        u = unsupported(ps)
        if u:
            undecided.append((f"{C}.{meth}", sorted(set(u))))
            return None
        return ps

    K1 = get("keys", 1)
    E1 = get("evaluate", 1) if C not in NO_EVALUATE else None
    V1 = get("validate", 1)
    X1 = get("explain", 1)
    k = z3.Const("k!g", T.Key)

    if "L1" in laws and K1 is not None:
        for i, p in enumerate(K1):
            if p.kind == "ok":
                S = p.value[1]
                vcs.append(VC(f"{C}:L1:keys#{i}", hyp + p.pc + p.defs,
                              z3.ForAll([k], z3.Implies(z3.IsMember(k, S), T.has(O1, k))), {"law": "L1", "cls": C}))
    if "L2" in laws and K1 is not None:
        K2 = get("keys", 2)
        E2 = get("evaluate", 2) if E1 is not None else None
        V2 = get("validate", 2) if V1 is not None else None
        for i, p in enumerate(K1):
            if p.kind != "ok":
                continue
            S = p.value[1]
            rel = [T.sub(O2, O1), T.agree(O1, O2, S)]
            if K2 is not None:
                goal = z3.And(*[z3.Implies(pathcond(q), z3.And(q.kind == "ok", (q.value[1] == S) if q.kind == "ok" else False)) for q in K2])
                vcs.append(VC(f"{C}:L2keys:keys#{i}", hyp + p.pc + p.defs + rel, goal, {"law": "L2", "cls": C}))
            if E2 is not None:
                for j, e1 in enumerate(E1):
                    goal = z3.And(*[z3.Implies(pathcond(e2), outcome_equiv(e1, e2)) for e2 in E2])
                    vcs.append(VC(f"{C}:L2eval:keys#{i}:evaluate#{j}", hyp + p.pc + p.defs + rel + e1.pc + e1.defs, goal, {"law": "L2", "cls": C}))
            if V2 is not None and C not in STATEFUL_VALIDATE:
                for j, v1 in enumerate(V1):
                    goal = z3.And(*[z3.Implies(pathcond(v2), outcome_equiv(v1, v2)) for v2 in V2])
                    vcs.append(VC(f"{C}:L2valid:keys#{i}:validate#{j}", hyp + p.pc + p.defs + rel + v1.pc + v1.defs, goal, {"law": "L2", "cls": C}))
    if "L3" in laws and K1 is not None and E1 is not None:
        for i, p in enumerate(K1):
            if p.kind == "exc":
                goal = z3.And(*[z3.Implies(pathcond(e), e.kind == "exc") for e in E1])
                vcs.append(VC(f"{C}:L3:keys#{i}", hyp + p.pc + p.defs, goal, {"law": "L3", "cls": C}))
    if "L6" in laws and E1 is not None:
        for j, e in enumerate(E1):
            if e.kind == "exc" and not after_return(e):
                x = exc_term(e)
                goal = z3.And(T.is_cls["EvaluationError"](x), T.exc_src(x) == SELF)
                if e.primordial is not None and e.primordial is not e.value:
                    goal = z3.And(goal, T.origin(x) == T.origin(e.primordial.term))
                vcs.append(VC(f"{C}:L6:evaluate#{j}", hyp + e.pc + e.defs, goal, {"law": "L6", "cls": C}))
    if "L6" in laws:
        for meth, ps in (("evaluate", E1), ("validate", V1), ("keys", K1), ("explain", X1)):
            for j, e in enumerate(ps or []):
                bad = [t for t in e.tags if t[0] == "user-exception-as-missing-option"]
                if e.kind == "exc" and bad:
                    vcs.append(VC(f"{C}:L6:user-exception-never-reported-as-missing-option:{meth}#{j}", hyp + e.pc + e.defs, z3.BoolVal(False),
                                  {"law": "L6", "cls": C}))
    if "L6k" in laws:
        hk = hyp + T.child_laws(("L6k",)) + extra_region(ci, "L6k")
        for meth, ps in (("evaluate", E1), ("validate", V1), ("keys", K1)):
            for j, e in enumerate(ps or []):
                if e.kind == "exc" and not after_return(e):
                    x = exc_term(e)
                    vcs.append(VC(f"{C}:L6k:{meth}#{j}", hk + e.pc + e.defs, z3.Implies(T.missing(x), z3.Not(T.has(O1, T.mkey(x)))), {"law": "L6k", "cls": C}))
    if "L6v" in laws:
        for meth, ps, cls in (("validate", V1, "EvaluationError"), ("keys", K1, "EvaluationError"), ("explain", X1, "InsufficientInformationError")):
            if ps is None:
                continue
            for j, e in enumerate(ps):
                if e.kind == "exc" and not user_raise(e):   # A-total-sel: selector callables (bind functions, case conditions) do not raise
                    vcs.append(VC(f"{C}:L6v:{meth}#{j}", hyp + e.pc + e.defs, T.is_cls[cls](exc_term(e)), {"law": "L6v", "cls": C}))
    if "L4a" in laws and V1 is not None and E1 is not None:
        for i, v in enumerate(V1):
            if v.kind == "ok":
                goal = z3.And(*[z3.Implies(pathcond(e), z3.BoolVal(True) if e.kind == "ok" else z3.Not(T.missing(exc_term(e)))) for e in E1])
                vcs.append(VC(f"{C}:L4a:validate#{i}", hyp + v.pc + v.defs, goal, {"law": "L4a", "cls": C}))
    if "L5" in laws and X1 is not None and K1 is not None and V1 is not None:
        for i, xp in enumerate(X1):
            if xp.kind != "ok":
                continue
            X = xp.value[1]
            pre = hyp + extra_region(ci, "L5") + xp.pc + xp.defs
            # covers keys
            goal = z3.And(*[z3.Implies(pathcond(q), z3.IsSubset(q.value[1], X)) for q in K1 if q.kind == "ok"] or [z3.BoolVal(True)])
            vcs.append(VC(f"{C}:L5cover:explain#{i}", pre, goal, {"law": "L5", "cls": C}))
            none_missing = z3.ForAll([k], z3.Implies(z3.IsMember(k, X), T.has(O1, k)))
            # (a) nothing listed is absent => validate cannot fail for a missing option
            goal = z3.And(*[z3.Implies(pathcond(v), z3.BoolVal(True) if v.kind == "ok" else z3.Not(T.missing(exc_term(v)))) for v in V1])
            vcs.append(VC(f"{C}:L5a:explain#{i}", pre + [none_missing], goal, {"law": "L5", "cls": C}))
            # (b) something listed is absent => validate fails   (under A-total)
            k0 = z3.Const("k!absent", T.Key)
            goal = z3.And(*[z3.Implies(pathcond(v), v.kind == "exc") for v in V1])
            vcs.append(VC(f"{C}:L5b:explain#{i}", pre + T.total_axioms() + class_total(ci) + [z3.IsMember(k0, X), z3.Not(T.has(O1, k0))], goal, {"law": "L5b", "cls": C}))
            # (c) a missing-key failure of validate names a listed, absent key
            goal = z3.And(*[z3.Implies(z3.And(pathcond(v), T.missing(exc_term(v))),
                                       z3.And(z3.IsMember(T.mkey(exc_term(v)), X), z3.Not(T.has(O1, T.mkey(exc_term(v))))))
                            for v in V1 if v.kind == "exc"] or [z3.BoolVal(True)])
            vcs.append(VC(f"{C}:L5c:explain#{i}", pre, goal, {"law": "L5", "cls": C}))
            goal = z3.And(*[z3.Implies(z3.And(pathcond(q), T.missing(exc_term(q))),
                                       z3.And(z3.IsMember(T.mkey(exc_term(q)), X), z3.Not(T.has(O1, T.mkey(exc_term(q))))))
                            for q in K1 if q.kind == "exc"] or [z3.BoolVal(True)])
            vcs.append(VC(f"{C}:L5e:explain#{i}", pre, goal, {"law": "L5", "cls": C}))
            if E1 is not None:
                EE = [e for e in E1 if e.kind == "exc" and not after_return(e)]
                goal = z3.And(*[z3.Implies(pathcond(e), z3.Not(T.missing(exc_term(e)))) for e in EE] or [z3.BoolVal(True)])
                vcs.append(VC(f"{C}:L5f:explain#{i}", pre + [none_missing], goal, {"law": "L5", "cls": C}))
                goal = z3.And(*[z3.Implies(z3.And(pathcond(e), T.missing(exc_term(e))),
                                           z3.And(z3.IsMember(T.mkey(exc_term(e)), X), z3.Not(T.has(O1, T.mkey(exc_term(e))))))
                                for e in EE] or [z3.BoolVal(True)])
                vcs.append(VC(f"{C}:L5g:explain#{i}", pre, goal, {"law": "L5", "cls": C}))
    if "L5d" in laws and X1 is not None:
        for meth, ps in (("validate", V1), ("evaluate", E1)):
            for i, v in enumerate(ps or []):
                if v.kind == "ok" and not after_return(v):
                    goal = z3.And(*[z3.Implies(pathcond(x), x.kind == "ok") for x in X1])
                    vcs.append(VC(f"{C}:L5d:{meth}#{i}", hyp + v.pc + v.defs, goal, {"law": "L5d", "cls": C}))
    if "L4t" in laws and V1 is not None and E1 is not None and K1 is not None:
        tot = hyp + T.total_axioms() + class_total(ci)
        for i, v in enumerate(V1):
            goal = z3.And(*[z3.Implies(pathcond(e), e.kind == v.kind) for e in E1 if not after_return(e)] or [z3.BoolVal(True)])
            vcs.append(VC(f"{C}:L4t:validate#{i}~evaluate", tot + v.pc + v.defs, goal, {"law": "L4t", "cls": C}))
            goal = z3.And(*[z3.Implies(pathcond(q), q.kind == v.kind) for q in K1])
            vcs.append(VC(f"{C}:L4t:validate#{i}~keys", tot + v.pc + v.defs, goal, {"law": "L4t", "cls": C}))
    return vcs, undecided


# ---------------------------------------------------------------------------------------------------------------------
# L10: inspection is body-free.  In validate/keys/explain the only `evaluate` calls on children are at selector positions and
# user callables are applied only as selectors (bind functions, case conditions).  Decided on the ghost trace of every path.
SELECTOR_FIELDS = {
    "Switch": ("dispatch",), "Overloaded": ("dispatch",), "Bind": ("evaluatable",), "CaseWhen": ("dispatch", "cases"),
    "Map": ("iterables",), "Option": ("domain",), "Computation": (), "Dataset": ("overloads",),
}
SELECTOR_CALLABLES = {"Bind": ("func",), "CaseWhen": ("cases", "dispatch")}
# flag options are read by inspection methods (Computation.validate/explain read LABREA.EFFECTS.DISABLED): not bodies
FLAG_PREFIX = "mk_Option"


def _mentions(term, cls, fields):
    s = str(term)
    return any(f"fld!{cls}.{f}" in s for f in fields)


def flat_events(trace):
    for ev in trace:
        if ev[0] in ("loop", "loop-prefix"):
            for cond, sub in ev[3]:
                yield from flat_events(sub)
        else:
            yield ev


def l10_obligations(repo, ci, R):
    out = []
    C = ci.name
    for meth in ("validate", "keys", "explain"):
        ps = R.paths(meth, 1)
        for i, p in enumerate(ps):
            if p.kind == "unsupported":
                continue
            bad = []
            for ev in flat_events(p.trace):
                if ev[0] == "call" and ev[1] == "evaluate":
                    t = ev[2]
                    if t.eq(SELF):
                        if not (C in ("Option", "_AllOptions") and meth == "validate"):
                            bad.append(f"evaluates itself in {meth}")
                        continue
                    if str(t).startswith(FLAG_PREFIX) and "LABREA." in str(t):
                        continue
                    if not _mentions(t, C, SELECTOR_FIELDS.get(C, ())):
                        # Option.validate evaluates (present key): handled above; temporaries built from selector fields are fine
                        bad.append(f"evaluate on non-selector child {str(t)[:80]}")
                elif ev[0] == "apply":
                    f = ev[1]
                    if not _mentions(f, C, SELECTOR_CALLABLES.get(C, ())) and not (C == "Option" and "domain" in str(f)):
                        bad.append(f"applies a user callable {str(f)[:80]}")
                elif ev[0] == "call" and ev[1] == "transform":
                    bad.append("runs an effect")
                elif ev[0] in ("store", "class-store", "setattr", "heap-write", "field-write") and not str(ev[1]).startswith(("ke1!obj_", "va1!obj_", "ex1!obj_", "ke1!x", "va1!x", "ex1!x")):
                    bad.append(f"writes {ev[0]} {str(ev[1])[:40]}.{ev[2] if len(ev) > 2 else ''}")
            out.append({"name": f"{C}:L10:{meth}#{i}", "ok": not bad, "detail": "; ".join(bad), "group": f"{C}:L10"})
    return out
