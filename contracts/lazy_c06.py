"""C06 laziness: obligations on the ghost trace of every evaluate() path (which children are evaluated, in which order),
with the spec taken from the property statement, plus construction-time obligations (building evaluates nothing)."""
from __future__ import annotations

import z3

from pyvc import theory as T
from pyvc.values import *  # noqa
from pyvc.symex import explore
from .laws import Runs, SELF, unsupported


def ctx_events(trace, ctx=None):
    for ev in trace:
        if ev[0] == "loop":
            for cond, sub in ev[3]:
                yield from ctx_events(sub, ("full", ev[1]))
        elif ev[0] == "loop-prefix":
            for cond, sub in ev[3]:
                yield from ctx_events(sub, ("prefix", ev[1], ev[2]))
        else:
            yield ev, ctx


def calls(p, meth="evaluate"):
    return [(n, ev, ctx) for n, (ev, ctx) in enumerate(ctx_events(p.trace)) if ev[0] == "call" and ev[1] == meth and not ev[2].eq(SELF)]


def mentions(t, s):
    """the term is (an element of) the field named s: decided on the head symbol, not on sub-terms"""
    try:
        while t.decl().name() in ("ev_of", "val_of_ev"):
            t = t.arg(0)
        return t.decl().name().startswith(s)
    except Exception:  # noqa
        return s in str(t)


def pc_has(p, s):
    return any(str(c).replace("\n", " ").replace("  ", " ").startswith(s) for c in p.pc)


def obligations(repo, classes):
    out, undecided = [], []

    def ob(C, name, ok, detail=""):
        out.append({"name": f"{C}:C06:{name}", "ok": bool(ok), "detail": str(detail)[:200], "group": f"{C}:C06"})

    for C in classes:
        ci = repo.find_class(C)
        if ci is None:
            continue
        R = Runs(repo, ci)
        ps = R.paths("evaluate", 1)
        u = unsupported(ps)
        if u:
            undecided.append((f"{C}.evaluate", sorted(set(u))))
            continue
        for i, p in enumerate(ps):
            cs = calls(p)
            applies = [(n, ev) for n, (ev, ctx) in enumerate(ctx_events(p.trace)) if ev[0] == "apply"]
            if C == "Option":
                present = any(str(c).startswith("has(o, key_of_val(fld!Option.key(self)))") for c in p.pc)
                touched = [ev for _, ev, _ in cs if mentions(ev[2], "fld!Option.default")] + [ev for _, ev in applies if mentions(ev[1], "fld!Option.default")]
                if present:
                    ob(C, f"present-key-never-touches-the-default#{i}", not touched, touched[:1])
            if C in ("Switch", "Overloaded"):
                d = [n for n, ev, _ in cs if mentions(ev[2], f"fld!{C}.dispatch")]
                br = [(n, ev) for n, ev, _ in cs if mentions(ev[2], f"fld!{C}.lookup") or mentions(ev[2], f"fld!{C}.default")]
                ob(C, f"dispatch-first-then-exactly-the-selected-branch#{i}", len(d) == 1 and len(br) <= 1 and all(n > d[0] for n, _ in br), (d, len(br)))
            if C == "CaseWhen":
                matched = any(ev[0] == "loop-prefix" for ev in p.trace) or any(ctx and ctx[0] == "prefix" for _, _, ctx in cs)
                full_conds = [ev for _, ev, ctx in cs if ctx and ctx[0] == "full" and mentions(ev[2], "fld!CaseWhen.cases#at0")]
                results = [ev for _, ev, ctx in cs if mentions(ev[2], "fld!CaseWhen.cases#at1")]
                exited = [1 for ev in p.trace if ev[0] == "loop-prefix"]
                if exited:
                    ob(C, f"conditions-after-the-first-match-never-evaluated#{i}", not full_conds, full_conds[:1])
                ob(C, f"only-the-selected-result-evaluated#{i}", len(results) <= 1, len(results))
                d = [n for n, ev, _ in cs if mentions(ev[2], "fld!CaseWhen.dispatch")]
                ob(C, f"dispatch-evaluated-once-before-conditions#{i}", len(d) == 1 and all(n > d[0] for n, ev, _ in cs if mentions(ev[2], "cases#")), d)
            if C == "Coalesce":
                full = [ev for _, ev, ctx in calls(p, "evaluate") + calls(p, "validate") if ctx and ctx[0] == "full"]
                exited = [1 for ev in p.trace if ev[0] == "loop-prefix"]
                if p.kind == "ok":
                    ob(C, f"members-after-the-first-success-never-touched#{i}", bool(exited) and not full, full[:1])
            if C == "Apply":
                s = [n for n, ev, _ in cs if mentions(ev[2], "fld!Apply.evaluatable")]
                f = [n for n, ev, _ in cs if mentions(ev[2], "fld!Apply.func")]
                a = [n for n, _ in applies]
                ok = (not f or (s and s[0] < f[0])) and (not a or (f and f[0] < a[0]))
                ob(C, f"source-before-function-before-application#{i}", ok and len(s) <= 1 and len(f) <= 1 and len(a) <= 1, (s, f, a))
            if C in ("FunctionApplication", "PartialApplication"):
                f = [n for n, ev, _ in cs if mentions(ev[2], f"fld!{C}.func")]
                g = [n for n, ev, _ in cs if mentions(ev[2], f"fld!{C}.arguments")]
                a = [n for n, _ in applies]
                ob(C, f"body-applied-only-after-function-and-all-arguments#{i}", all(x > max(f + g + [-1]) for x in a) and (not a or (f and g)), (f, g, a))
            if C == "Computation":
                b = [n for n, ev, _ in cs if mentions(ev[2], "fld!Computation.evaluatable")]
                e = [n for n, (ev, ctx) in enumerate(ctx_events(p.trace)) if ev[0] == "call" and ev[1] == "transform"]
                ob(C, f"body-before-effects#{i}", all(x > b[0] for x in e) if b else not e, (b, e))
    return out, undecided


CONSTRUCTORS = [
    ("labrea.types", "Evaluatable", "apply"), ("labrea.types", "Evaluatable", "bind"), ("labrea.types", "Evaluatable", "__rshift__"),
    ("labrea.conditional", "CaseWhen", "when"), ("labrea.conditional", "CaseWhen", "otherwise"),
    ("labrea.dataset", "Dataset", "with_options"), ("labrea.dataset", "Dataset", "with_default_options"), ("labrea.dataset", "Dataset", "register"),
    ("labrea.dataset", "Dataset", "set_dispatch"), ("labrea.dataset", "Dataset", "disable_effects"), ("labrea.dataset", "Dataset", "enable_effects"),
    ("labrea.overload", "Overloaded", "register"),
]


def construction(repo):
    """building/deriving expressions evaluates nothing: the ghost trace of each construction method has no evaluate/validate/keys/explain
    call, no application of a user callable, no request and no cache access"""
    out, undecided = [], []
    for modname, cname, meth in CONSTRUCTORS:
        mod = repo.modules.get(modname)
        ci = mod.classes.get(cname) if mod else None
        fn = ci.methods.get(meth) if ci else None
        if fn is None:
            out.append({"name": f"{cname}.{meth}:C06:exists", "ok": False, "detail": "method not found", "group": f"{cname}:C06c"})
            continue
        nargs = len(fn.args.args) - 1

        def run(ex, ci=ci, fn=fn, nargs=nargs, meth=meth, cname=cname):
            s = ex.sym_self(ci) if cname != "Evaluatable" else Sym("ev", z3.Const("self", T.Ev), ci)
            args = []
            for a in fn.args.args[1:]:
                nm = a.arg
                if nm in ("options",):
                    args.append(Sym("opt", z3.Const("Q", T.Opt)))
                elif nm in ("dispatch",):
                    args.append(Sym("ev", z3.Const("arg_" + nm, T.Ev)))
                elif nm in ("value",) and cname in ("Overloaded", "Dataset"):
                    args.append(Sym("ev", z3.Const("arg_" + nm, T.Ev)))
                else:
                    args.append(Sym("val", z3.Const("arg_" + nm, T.Val)))
            return ex.call(PyFunc(fn, ci.module, owner=ci), [s] + args, {})
        from .laws import FN_CONTRACTS
        ps = explore(repo, run, tag="cn", config={"abstract_classes": (), "fn_contracts": FN_CONTRACTS})
        u = sorted({p.value for p in ps if p.kind == "unsupported"})
        if u:
            undecided.append((f"{cname}.{meth}", u))
            continue
        for i, p in enumerate(ps):
            bad = [ev for ev, _ in ctx_events(p.trace) if ev[0] in ("call", "apply", "req", "cache")]
            out.append({"name": f"{cname}.{meth}:C06:construction-evaluates-nothing#{i}", "ok": not bad, "detail": str(bad[:1])[:160], "group": f"{cname}:C06c"})
    return out, undecided
