"""C15: lock discipline (AST obligations over the real source)."""
from __future__ import annotations

import ast


def _inside_with(tree, lockexpr):
    """yield (node, inside) for every Name/Attribute use; inside = lexically within `with <lockexpr>:`"""
    def walk(node, inside):
        if isinstance(node, ast.With) and any(ast.unparse(i.context_expr) == lockexpr for i in node.items):
            for ch in node.body:
                yield from walk(ch, True)
            return
        yield node, inside
        for ch in ast.iter_child_nodes(node):
            yield from walk(ch, inside)
    yield from walk(tree, False)


def obligations(repo):
    out = []

    def ob(g, name, ok, detail=""):
        out.append({"name": f"{g}:C15:{name}", "ok": bool(ok), "detail": str(detail)[:200], "group": f"{g}:C15"})
    rt = repo.module("runtime")
    # the module lock: whatever module-level name is bound to threading.Lock()/RLock()
    locknames = [n for n, v in rt.assigns.items() if isinstance(v, ast.Call) and ast.unparse(v.func) in ("threading.Lock", "threading.RLock", "Lock", "RLock")]
    LOCK = locknames[0] if locknames else "lock"
    ob("runtime", "one-module-lock", len(locknames) == 1, locknames)
    shared = [n for n, v in rt.assigns.items() if isinstance(v, ast.Dict) and not v.keys]
    for fname, fn in list(rt.functions.items()) + [(f"{c.name}.{m}", f) for c in rt.classes.values() for m, f in c.methods.items()]:
        for node, inside in _inside_with(fn, LOCK):
            if isinstance(node, ast.Name) and node.id in shared:
                is_write_table = node.id != "_DEFAULT_HANDLERS"
                # reads of the default-handler table outside the lock are single dict reads (atomic under the GIL); everything else must be locked
                parent_ok = inside or (node.id == "_DEFAULT_HANDLERS" and isinstance(node.ctx, ast.Load) and not _is_mutation(fn, node))
                ob("runtime", f"{fname}:access-to-{node.id}-under-the-module-lock@{node.lineno}", parent_ok)
    # no function called inside a locked region takes the same lock again (non-reentrant Lock)
    locked_callees = set()
    for fname, fn in list(rt.functions.items()) + [(f"{c.name}.{m}", f) for c in rt.classes.values() for m, f in c.methods.items()]:
        for node, inside in _inside_with(fn, LOCK):
            if inside and isinstance(node, ast.Call):
                locked_callees.add(ast.unparse(node.func))
    takes_lock = {n for n, f in rt.functions.items() if f"with {LOCK}" in ast.unparse(f)} | \
                 {f"{c.name}.{m}" for c in rt.classes.values() for m, f in c.methods.items() if f"with {LOCK}" in ast.unparse(f)}
    bad = [c for c in locked_callees if c in takes_lock or (c == "Runtime" and "Runtime.__init__" in takes_lock)]
    ob("runtime", "no-reacquisition-of-the-module-lock-inside-a-locked-region", not bad, bad)
    # overload.py
    ov = repo.module("overload")
    gl = ov.functions.get("_get_lock")
    if gl is not None:
        ok = all(inside for node, inside in _inside_with(gl, "_MODULE_LOCK") if isinstance(node, ast.Name) and node.id == "_LOCKS")
        ob("overload", "_LOCKS-accessed-under-_MODULE_LOCK", ok)
    reg = ov.classes["Overloaded"].methods.get("register")
    if reg is not None:
        ok = all(inside for node, inside in _inside_with(reg, "self._lock") if isinstance(node, ast.Attribute) and ast.unparse(node) == "self.lookup")
        ob("overload", "read-modify-write-of-lookup-under-the-instance-lock", ok)
        # copy-on-write: the table other threads may be reading is never mutated in place; `self.lookup` is only ever re-bound to a freshly built dict
        # (what the new dict contains is C07's obligation Overloaded.register:lookup-becomes-lookup-plus-alias)
        inplace = [ast.unparse(n) for n in ast.walk(reg)
                   if (isinstance(n, ast.Subscript) and isinstance(n.ctx, (ast.Store, ast.Del)) and ast.unparse(n.value) == "self.lookup")
                   or (isinstance(n, ast.Call) and isinstance(n.func, ast.Attribute) and ast.unparse(n.func.value) == "self.lookup"
                       and n.func.attr in ("update", "setdefault", "pop", "popitem", "clear", "__setitem__", "__delitem__"))]
        fresh = {}
        for n in ast.walk(reg):
            if isinstance(n, ast.Assign) and len(n.targets) == 1 and isinstance(n.targets[0], ast.Name):
                fresh.setdefault(n.targets[0].id, []).append(isinstance(n.value, (ast.Dict, ast.DictComp)) or (isinstance(n.value, ast.Call) and ast.unparse(n.value.func) == "dict"))
        rebinds = [n.value for n in ast.walk(reg) if isinstance(n, ast.Assign) and any(ast.unparse(t) == "self.lookup" for t in n.targets)]
        okcow = bool(rebinds) and all(isinstance(v, (ast.Dict, ast.DictComp)) or (isinstance(v, ast.Name) and fresh.get(v.id) and all(fresh[v.id])) for v in rebinds)
        ob("overload", "lookup-replaced-copy-on-write", not inplace and okcow, inplace or [ast.unparse(v) for v in rebinds])
    # MemoryCache: entries are only added (never deleted) - concurrent readers see a stored value or a miss
    mc = repo.module("cache").classes["MemoryCache"]
    dels = [ast.unparse(n) for m in mc.methods.values() for n in ast.walk(m) if isinstance(n, ast.Delete) or (isinstance(n, ast.Call) and isinstance(n.func, ast.Attribute) and n.func.attr in ("pop", "clear", "popitem"))]
    ob("cache", "MemoryCache-never-deletes-entries", not dels, dels)
    return out


def _is_mutation(fn, name_node):
    for n in ast.walk(fn):
        if isinstance(n, (ast.Assign, ast.AugAssign, ast.Delete)):
            for t in (n.targets if hasattr(n, "targets") else [n.target]):
                if isinstance(t, ast.Subscript) and t.value is name_node:
                    return True
    return False
