"""Loop contract (sidecar, keyed by the SHAPE of the loop, checked on the real AST every time it is used):

    for K in sorted(S):                      # S: a set of keys
        V = get_dotted_key(K, O)             # O: an options dictionary
        set_dotted_key(K, V, D)              # D: an attribute holding a dictionary that is EMPTY when the loop starts

Summary: if every key of S can be looked up in O the loop leaves D = restrict(O, S), nothing else changes; otherwise it raises the lookup's KeyError.
Justification: the ghost function `restrict` of the option-dictionary theory IS this fold (harness/opt_validate.restrict is literally the loop; its
clauses - restrict(o,S) lies below o, keeps the value of every key of S, dictionaries agreeing on S have the same restriction - are bounded-validated
there on the real confectioner on every run).  Only the shape match is decided here; a loop that does not match is executed (or rejected) by the executor."""
from __future__ import annotations

import ast

import z3

from pyvc import theory as T
from pyvc.values import *  # noqa

T.assume("OptTheory.restrict.def", "restrict(o, S) is the dictionary built by set_dotted_key(k, get_dotted_key(k, o), d) for k in sorted(S) from d = {} (definition of the ghost; "
         "its clauses are bounded-validated in harness/opt_validate.py)")


def _is_call(node, fname, nargs):
    return isinstance(node, ast.Call) and isinstance(node.func, ast.Name) and node.func.id == fname and len(node.args) == nargs and not node.keywords


def restrict_loop(ex, st, it, env):
    """returns True when the loop was handled by contract"""
    if st.orelse or not isinstance(st.target, ast.Name) or len(st.body) != 2:
        return False
    if not (isinstance(st.iter, ast.Call) and isinstance(st.iter.func, ast.Name) and st.iter.func.id == "sorted" and len(st.iter.args) == 1):
        return False
    a, b = st.body
    K = st.target.id
    if not (isinstance(a, ast.Assign) and len(a.targets) == 1 and isinstance(a.targets[0], ast.Name) and _is_call(a.value, "get_dotted_key", 2)):
        return False
    V = a.targets[0].id
    if not (isinstance(a.value.args[0], ast.Name) and a.value.args[0].id == K and isinstance(a.value.args[1], ast.Name)):
        return False
    Oname = a.value.args[1].id
    if not (isinstance(b, ast.Expr) and _is_call(b.value, "set_dotted_key", 3)):
        return False
    k2, v2, D = b.value.args
    if not (isinstance(k2, ast.Name) and k2.id == K and isinstance(v2, ast.Name) and v2.id == V and V not in (K, Oname)):
        return False
    if not (isinstance(D, ast.Attribute) and isinstance(D.value, ast.Name) and D.value.id not in (K, V)):
        return False
    # the two functions are confectioner's
    for fn in ("get_dotted_key", "set_dotted_key"):
        f = ex.eval(ast.Name(fn, ast.Load()), env)
        if not (isinstance(f, Builtin) and f.name.endswith(fn)):
            return False
    holder = ex.eval(D.value, env)
    d = ex.getattr(holder, D.attr)
    if not (isinstance(d, PyDict) and not d.items and isinstance(holder, Obj)):
        return False
    src = it
    ks = getattr(src, "ks", None)          # sorted(<key set>)
    if ks is None:
        return False
    o = ex.as_opt(env.lookup(Oname))
    S = ex.kset_term(ks)
    k = ex.bound("k", T.Key)
    allp = z3.ForAll([k], z3.Implies(z3.IsMember(k, S), T.has(o, k)))
    ex.tags.append(("loop-contract", "restrict"))
    if ex.fork(allp):
        ex.setattr(holder, D.attr, Sym("opt", T.restrict(o, S)))
        return True
    kk = ex.fresh("kmiss", T.Key)
    ex.define(z3.And(z3.IsMember(kk, S), z3.Not(T.has(o, kk))))
    x = ex.fresh("x", T.Exc)
    for name in ("BaseException", "Exception", "LookupError"):
        ex.define(T.is_cls[name](x))
    ex.define(z3.Or(T.is_cls["KeyError"](x), T.is_cls["TypeError"](x)))
    ex.define(z3.And(z3.Not(T.is_cls["EvaluationError"](x)), z3.Not(T.missing(x)), T.exc_key(x) == kk))
    e = ExcSym(x, None)
    e.dep = True
    ex.do_raise(e)
