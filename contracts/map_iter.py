"""What is proved about the body of labrea.iterable.Map._iter (the contract laws.map_iter_contract that Map.evaluate/validate/keys/explain are
checked against).  The obligations are structural (AST) facts about the real source of Map._iter, Map._iterate_over_options and
Map._create_option_set, re-read on every run:

 * prelude      - the first thing _iterate_over_options does is exactly the contract's prelude (evaluate every iterable, in order, under `options`);
 * frame        - `options` is used for nothing else, and `self` only through evaluatable / iterables: the returned expression is a function of the
                  iterables' values (theory.map_iter_axioms) given that the constructors it calls are pure (A-pure.ctor);
 * failures     - combining the values (itertools.product) and building the option sets (set_dotted_key) are guarded: their exceptions surface as
                  EvaluationError(<text>, self) chained with `from`; nothing else in the two functions calls anything that can raise.

The shape of the returned expression (one (assignment, WithOptions(evaluatable, option set)) pair per combination) is NOT proved; it is covered by the
bounded law C05 on the real code (harness/lawsearch.py, reference interpreter)."""
from __future__ import annotations

import ast

from pyvc import theory as T

T.assume("A-pure.ctor", "the constructors and combinators Map._iter calls (Iter, WithOptions, Evaluatable.apply, tuple, zip, dict, itertools.product on lists) "
         "are deterministic functions of their arguments and keep no reference to anything else")

PRELUDE = "[iterable.evaluate(options) for iterable in self.iterables.values()]"
PURE_CALLS = {"Iter", "WithOptions", "tuple", "zip", "dict", "EvaluationError"}
SELF_ATTRS = {"evaluatable", "iterables", "_create_option_set", "_iterate_over_options"}


def _alpha(node):
    """the comprehension with its bound variable renamed to a canonical name (the obligation is about the computation, not the spelling of a local)"""
    import copy
    node = copy.deepcopy(node)
    if isinstance(node, ast.ListComp) and len(node.generators) == 1 and isinstance(node.generators[0].target, ast.Name):
        old = node.generators[0].target.id
        for n in ast.walk(node):
            if isinstance(n, ast.Name) and n.id == old:
                n.id = "_v"
    return node


def _calls(fn):
    for n in ast.walk(fn):
        if isinstance(n, ast.Call):
            yield n


def _guarded(fn, pred, must_catch):
    """every call satisfying pred lies in the body of a try whose handlers catch `must_catch` and re-raise EvaluationError(<..>, self) from the caught one"""
    found, ok = 0, True
    parents = {}
    for p in ast.walk(fn):
        for c in ast.iter_child_nodes(p):
            parents[c] = p
    for call in _calls(fn):
        if not pred(call):
            continue
        found += 1
        cur, good = call, False
        while cur in parents:
            par = parents[cur]
            if isinstance(par, ast.Try) and any(cur is s or cur in ast.walk(s) for s in par.body):
                for h in par.handlers:
                    names = set()
                    if isinstance(h.type, ast.Name):
                        names = {h.type.id}
                    elif isinstance(h.type, ast.Tuple):
                        names = {e.id for e in h.type.elts if isinstance(e, ast.Name)}
                    if must_catch <= names or "Exception" in names:
                        r = h.body[-1] if h.body else None
                        if isinstance(r, ast.Raise) and isinstance(r.exc, ast.Call) and getattr(r.exc.func, "id", None) == "EvaluationError" \
                                and len(r.exc.args) == 2 and isinstance(r.exc.args[1], ast.Name) and r.exc.args[1].id == "self" \
                                and isinstance(r.cause, ast.Name) and r.cause.id == h.name:
                            good = True
            cur = par
        ok = ok and good
    return found, ok


def obligations(repo):
    out, und = [], []
    ci = repo.module("iterable").classes.get("Map")

    def ob(name, ok, detail=""):
        out.append({"name": f"Map._iter:contract:{name}", "ok": bool(ok), "detail": str(detail)[:200], "group": "Map._iter:contract"})
    it = ci.methods.get("_iter") if ci else None
    ioo = ci.methods.get("_iterate_over_options") if ci else None
    cos = ci.methods.get("_create_option_set") if ci else None
    if not (it and ioo and cos):
        return [], [("Map._iter", ["Map._iter / _iterate_over_options / _create_option_set not found"])]
    # prelude
    first = ioo.body[1] if isinstance(ioo.body[0], ast.Expr) and isinstance(getattr(ioo.body[0], "value", None), ast.Constant) else ioo.body[0]
    want = ast.dump(_alpha(ast.parse(PRELUDE, mode="eval").body))
    ob("prelude-evaluates-every-iterable-in-order-under-the-given-options", isinstance(first, ast.Assign) and ast.dump(_alpha(first.value)) == want, ast.unparse(first)[:150])
    # frame: uses of `options`
    uses = [n for n in ast.walk(ioo) if isinstance(n, ast.Name) and n.id == "options" and isinstance(n.ctx, ast.Load)]
    inside = [n for n in ast.walk(first) if isinstance(n, ast.Name) and n.id == "options"] if isinstance(first, ast.Assign) else []
    ob("options-used-only-to-evaluate-the-iterables", len(uses) == len(inside) == 1, f"{len(uses)} uses, {len(inside)} in the prelude")
    uses_it = [n for n in ast.walk(it) if isinstance(n, ast.Name) and n.id == "options" and isinstance(n.ctx, ast.Load)]
    fwd = [c for c in _calls(it) if isinstance(c.func, ast.Attribute) and c.func.attr == "_iterate_over_options" and len(c.args) == 1 and isinstance(c.args[0], ast.Name) and c.args[0].id == "options"]
    ob("_iter-only-forwards-options", len(uses_it) == 1 and len(fwd) == 1, f"{len(uses_it)} uses")
    for fn in (it, ioo):
        attrs = {n.attr for n in ast.walk(fn) if isinstance(n, ast.Attribute) and isinstance(n.value, ast.Name) and n.value.id == "self"}
        ob(f"{fn.name}-reads-only-evaluatable-and-iterables", attrs <= SELF_ATTRS, sorted(attrs - SELF_ATTRS))
        stores = [n for n in ast.walk(fn) if isinstance(n, (ast.Attribute, ast.Subscript)) and isinstance(n.ctx, (ast.Store, ast.Del))]
        glob = [n for n in ast.walk(fn) if isinstance(n, (ast.Global, ast.Nonlocal))]
        ob(f"{fn.name}-stores-nothing", not stores and not glob, [ast.unparse(s) for s in stores][:3])
    # failures
    n1, ok1 = _guarded(ioo, lambda c: isinstance(c.func, ast.Attribute) and c.func.attr == "product", {"Exception"})
    ob("combining-the-values-is-guarded", n1 == 1 and ok1, f"{n1} product calls")
    n2, ok2 = _guarded(it, lambda c: isinstance(c.func, ast.Attribute) and c.func.attr == "_create_option_set", {"TypeError", "AttributeError"})
    ob("building-the-option-sets-is-guarded", n2 == 1 and ok2, f"{n2} _create_option_set calls")
    for fn in (it, ioo):
        other = []
        for c in _calls(fn):
            f = c.func
            if isinstance(f, ast.Name) and f.id in PURE_CALLS:
                continue
            if isinstance(f, ast.Attribute) and f.attr in ("apply", "keys", "values", "product", "_create_option_set", "_iterate_over_options", "evaluate"):
                continue
            other.append(ast.unparse(f))
        ob(f"{fn.name}-calls-nothing-else-that-can-raise", not other, other[:4])
    # the option set builder sees only its arguments
    names = set()
    for st in cos.body:
        skip = {id(x) for x in ast.walk(st.annotation)} if isinstance(st, ast.AnnAssign) else set()
        names |= {n.id for n in ast.walk(st) if isinstance(n, ast.Name) and isinstance(n.ctx, ast.Load) and id(n) not in skip}
    ob("_create_option_set-is-a-function-of-its-arguments", names <= {"args", "key", "value", "options", "set_dotted_key"} and
       any(isinstance(d, ast.Name) and d.id == "staticmethod" for d in cos.decorator_list), sorted(names))
    return out, und
