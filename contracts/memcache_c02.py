"""MemoryCache.{get,set,exists} against the ghost view sigma[c] = (present, value) of its _cache dictionary (C01/C02)."""
from __future__ import annotations

import z3

from pyvc import theory as T
from pyvc.values import *  # noqa
from pyvc.solve import VC
from pyvc.symex import explore
from .laws import FN_CONTRACTS

E = z3.Const("e", T.Ev)
O = z3.Const("o", T.Opt)
V = z3.Const("v", T.Val)
AVB, AVV = z3.ArraySort(T.Val, T.B), z3.ArraySort(T.Val, T.Val)
SP, SV = z3.Const("hd!MemoryCache._cache#p", AVB), z3.Const("hd!MemoryCache._cache#v", AVV)
FP = T.fpF(O, T.KSset(E, O))


def build(repo):
    vcs, und = [], []
    ci = repo.module("cache").classes["MemoryCache"]
    # frame: the only state a MemoryCache ever writes is its entry table, and only in __init__ / set (so get/exists/fingerprints remember nothing
    # between calls); decided on the AST of every method, also when a body has left the supported subset
    import ast as _ast
    bad = []
    for mname, fn in ci.methods.items():
        for n in _ast.walk(fn):
            tgt = None
            if isinstance(n, (_ast.Attribute, _ast.Subscript)) and isinstance(n.ctx, (_ast.Store, _ast.Del)):
                tgt = _ast.unparse(n)
            elif isinstance(n, _ast.Call) and isinstance(n.func, _ast.Name) and n.func.id in ("setattr", "delattr"):
                tgt = _ast.unparse(n)
            elif isinstance(n, (_ast.Global, _ast.Nonlocal)):
                tgt = _ast.unparse(n)
            if tgt is None:
                continue
            allowed = (mname == "__init__" and tgt.startswith("self._cache")) or (mname == "set" and tgt.startswith("self._cache["))
            if not allowed:
                bad.append(f"{mname}: {tgt}")
    vcs.append(VC("MemoryCache:sigma:only-the-entry-table-is-written-and-only-by-set", [], z3.BoolVal(not bad), {"law": "sigma", "cls": "MemoryCache", "detail": str(bad)[:160]}))
    evci = repo.module("types").classes["Evaluatable"]
    hyp = T.base_axioms() + T.child_laws(("L1", "L6v"))

    def paths(meth, extra):
        def run(ex):
            s = ex.sym_self(ci)
            return ex.call(ex.getattr(s, meth), [Sym("ev", E, evci), Sym("opt", O)] + extra, {})
        ps = explore(repo, run, tag="mc", config={"abstract_classes": (), "fn_contracts": FN_CONTRACTS})
        u = sorted({p.value for p in ps if p.kind == "unsupported"})
        if u:
            und.append((f"MemoryCache.{meth}", u))
            return []
        return ps

    def state(p):
        return p.heap.get("hd!MemoryCache._cache", (SP, SV))

    def keys_failed(p):
        return isinstance(p.value, ExcSym) and "KSexc" in str(p.value.term)

    def fp_fact(p):
        """the key used is the fingerprint of (e, o): the set of the sorted list is KS(e,o) (fingerprint refinement, proved in contracts/fingerprint.py)"""
        return []

    for i, p in enumerate(paths("set", [Sym("val", V)])):
        sp, sv = state(p)
        if p.kind == "ok":
            writes = [e for e in p.trace if e[0] == "heap-write"]
            key = writes[0][2] if len(writes) == 1 else None
            goal = z3.BoolVal(False)
            if key is not None:
                goal = z3.And(key == FP, sp == z3.Store(SP, key, True), sv == z3.Store(SV, key, V), T.KSok(E, O))
            vcs.append(VC(f"MemoryCache:set:writes-exactly-the-fingerprint-entry#{i}", hyp + p.pc + p.defs, goal, {"law": "sigma", "cls": "MemoryCache"}))
        else:
            vcs.append(VC(f"MemoryCache:set:fails-only-if-keys-fails#{i}", hyp + p.pc + p.defs,
                          z3.And(z3.BoolVal(keys_failed(p)), z3.Not(T.KSok(E, O)), sp == SP, sv == SV), {"law": "sigma", "cls": "MemoryCache"}))
    for i, p in enumerate(paths("get", [])):
        sp, sv = state(p)
        reads = [e for e in p.trace if e[0] == "heap-read"]
        key = reads[0][2] if reads else None
        unchanged = z3.And(sp == SP, sv == SV)
        if p.kind == "ok":
            goal = z3.BoolVal(False)
            if key is not None and isinstance(p.value, Sym):
                goal = z3.And(key == FP, SP[key], p.value.term == SV[key], unchanged)     # a stored value is returned whatever it is (None included)
            vcs.append(VC(f"MemoryCache:get:returns-the-stored-value#{i}", hyp + p.pc + p.defs, goal, {"law": "sigma", "cls": "MemoryCache"}))
        else:
            x = p.value
            miss = isinstance(x, Obj) and x.clsname == "CacheGetFailure"
            goal = z3.And(key == FP, z3.Not(SP[key]), unchanged) if (miss and key is not None) else z3.And(z3.BoolVal(keys_failed(p)), z3.Not(T.KSok(E, O)), unchanged)
            vcs.append(VC(f"MemoryCache:get:fails-only-on-a-missing-entry#{i}", hyp + p.pc + p.defs, goal, {"law": "sigma", "cls": "MemoryCache"}))
    for i, p in enumerate(paths("exists", [])):
        sp, sv = state(p)
        unchanged = z3.And(sp == SP, sv == SV)
        if p.kind == "ok":
            r = p.value
            rt = r.term if isinstance(r, Sym) else z3.BoolVal(bool(r))
            # which key was probed: the `in` test leaves no read event, so state it through the path condition
            goal = z3.And(unchanged, T.KSok(E, O))
            vcs.append(VC(f"MemoryCache:exists:pure#{i}", hyp + p.pc + p.defs, goal, {"law": "sigma", "cls": "MemoryCache"}))
            vcs.append(VC(f"MemoryCache:exists:iff-stored#{i}", hyp + p.pc + p.defs + fp_axioms_local(), z3.And(key_of_exists(p) == FP, rt == SP[key_of_exists(p)]) if key_of_exists(p) is not None else z3.BoolVal(False),
                          {"law": "sigma", "cls": "MemoryCache"}))
        else:
            vcs.append(VC(f"MemoryCache:exists:fails-only-if-keys-fails#{i}", hyp + p.pc + p.defs, z3.And(z3.BoolVal(keys_failed(p)), z3.Not(T.KSok(E, O)), unchanged),
                          {"law": "sigma", "cls": "MemoryCache"}))
    return vcs, und


def fp_axioms_local():
    return []


def key_of_exists(p):
    for e in p.trace:
        if e[0] == "heap-probe":
            return e[2]
    return None
