"""C04: Option resolution. Postconditions written from the property statement, checked on the symbolic runs of the real
Option.evaluate / __init__ / set, _Auto.option / build and Namespace.__getitem__."""
from __future__ import annotations

import z3

from pyvc import theory as T
from pyvc.values import *  # noqa
from pyvc.solve import VC
from pyvc.symex import explore, litkey_facts
from .laws import Runs, base_noregion, O1, SELF, flat_events, unsupported, FN_CONTRACTS, temp_contract

KEY = T.key_of_val(z3.Function("fld!Option.key", T.Ev, T.Val)(SELF))
DEFAULT = z3.Function("fld!Option.default", T.Ev, T.Val)(SELF)
DOMAIN = z3.Function("fld!Option.domain", T.Ev, T.Val)(SELF)


def args1(x):
    return T.pack(T.mkseq(z3.IntVal(1), z3.Store(z3.K(T.I, T.DFLT), 0, x)), T.NOKW)


def evaluate_post(repo):
    ci = repo.module("option").classes["Option"]
    R = Runs(repo, ci)
    ps = R.paths("evaluate", 1)
    if unsupported(ps):
        return [], [("Option.evaluate", sorted(set(unsupported(ps))))]
    hyp = base_noregion(ci)
    present = T.has(O1, KEY)
    raw = T.get(O1, KEY)
    de = T.ev_of(DEFAULT)
    dom = T.EVval(T.ev_of(DOMAIN), O1)
    vcs = []
    for i, p in enumerate(ps):
        if p.kind == "ok":
            v = p.value[1]
            # the value: stored value (templates resolved against the same options) when present - whatever it is, falsy included -
            # else the default evaluated against the same options
            src = z3.If(present, z3.And(T.resolve_ok(raw, O1), v == T.resolve_val(raw, O1)),
                        z3.And(DEFAULT != T.MISSING, T.EVok(de, O1), v == T.EVval(de, O1)))
            # a value outside a declared domain is never returned
            indom = z3.Implies(DOMAIN != T.MISSING, z3.And(T.EVok(T.ev_of(DOMAIN), O1),
                                                           z3.Implies(T.iscallable(dom), T.truthy(T.call_val(dom, args1(v)))),
                                                           z3.Implies(z3.And(z3.Not(T.iscallable(dom)), T.iscontainer(dom)), T.contains(dom, v))))
            vcs.append(VC(f"Option:C04:value#{i}", hyp + p.pc + p.defs, z3.And(src, indom), {"law": "C04", "cls": "Option"}))
        else:
            x = p.value
            # absent and no default: a missing-key error naming the key; never a failure while a present, resolvable, in-domain value exists
            absent_nodefault = z3.And(z3.Not(present), DEFAULT == T.MISSING)
            named = z3.And(T.is_cls["KeyNotFoundError"](x.term), T.mkey(x.term) == KEY, T.exc_src(x.term) == SELF) if isinstance(x, Obj) else z3.BoolVal(True)
            goal = z3.Implies(absent_nodefault, named)
            goal = z3.And(goal, z3.Implies(z3.And(present, T.resolve_ok(raw, O1), DOMAIN == T.MISSING), z3.BoolVal(False)))
            vcs.append(VC(f"Option:C04:failure#{i}", hyp + p.pc + p.defs, goal, {"law": "C04", "cls": "Option"}))
    return vcs, []


def _run(repo, fn, tag="c4", config=None):
    cfg = {"abstract_classes": (), "fn_contracts": FN_CONTRACTS, "temp_contract": temp_contract}
    cfg.update(config or {})
    return explore(repo, fn, tag=tag, config=cfg)


def init_normalisation(repo):
    """Option.__init__: str -> Template, evaluatable -> itself, constant -> Value, factory -> FunctionApplication, none -> MISSING"""
    out, und = [], []
    ci = repo.module("option").classes["Option"]

    def ob(name, ok, detail=""):
        out.append({"name": f"Option.__init__:C04:{name}", "ok": bool(ok), "detail": str(detail)[:160], "group": "Option.__init__:C04"})
    cases = {
        "string-default-becomes-a-template": ({"default": "a-{B}"}, lambda o: isinstance(o.fields.get("default"), Obj) and o.fields["default"].clsname == "Template" and o.fields["default"].fields.get("template") == "a-{B}"),
        "evaluatable-default-kept": ({"default": Sym("ev", z3.Const("d", T.Ev))}, lambda o: isinstance(o.fields.get("default"), Sym) and str(o.fields["default"].term) == "d"),
        "constant-default-wrapped-in-Value": ({"default": 0}, lambda o: isinstance(o.fields.get("default"), Obj) and o.fields["default"].clsname == "Value" and o.fields["default"].fields.get("value") == 0),
        "None-default-is-a-default": ({"default": None}, lambda o: isinstance(o.fields.get("default"), Obj) and o.fields["default"].clsname == "Value" and o.fields["default"].fields.get("value") is None),
        "factory-becomes-a-function-application": ({"default_factory": Sym("val", z3.Const("fac", T.Val))},
                                                   lambda o: isinstance(o.fields.get("default"), Obj) and o.fields["default"].clsname == "FunctionApplication"),
        "no-default-is-MISSING": ({}, lambda o: o.fields.get("default") is MISSING),
        "no-domain-is-MISSING": ({}, lambda o: o.fields.get("domain") is MISSING),
    }
    for name, (kw, pred) in cases.items():
        def run(ex, kw=kw):
            return ex.call(ClassRef(ci), ["A.B"], dict(kw))
        ps = _run(repo, run)
        u = sorted({p.value for p in ps if p.kind == "unsupported"})
        if u:
            und.append(("Option.__init__", u))
            continue
        ok = [p for p in ps if p.kind == "ok" and not any(str(z3.simplify(c)) == "fac == py_MISSING" for c in p.pc)]
        ob(name, ok and all(pred(p.value) and p.value.fields.get("key") == "A.B" for p in ok), [repr(p.value.fields.get("default")) for p in ok][:2])
        ob(name + ":evaluates-nothing", all(not [e for e in flat_events(p.trace) if e[0] in ("call", "apply", "req")] for p in ps))
    return out, und


def set_post(repo):
    """Option.set(o, v) = mix(o, single(key, v)), inputs untouched"""
    vcs, und = [], []
    ci = repo.module("option").classes["Option"]
    V = z3.Const("v", T.Val)

    def run(ex):
        s = ex.sym_self(ci)
        return ex.call(ex.getattr(s, "set"), [Sym("opt", O1), Sym("val", V)], {})
    ps = _run(repo, run)
    u = sorted({p.value for p in ps if p.kind == "unsupported"})
    if u:
        return [], [("Option.set", u)], []
    hyp = T.base_axioms() + litkey_facts()
    syn = []
    k = z3.Const("k!set", T.Key)
    for i, p in enumerate(ps):
        if p.kind != "ok" or not (isinstance(p.value, Sym) and p.value.kind == "opt"):
            syn.append({"name": f"Option.set:C04:returns-a-dictionary#{i}", "ok": False, "detail": repr(p.value), "group": "Option.set:C04"})
            continue
        r = p.value.term
        unrelated = z3.And(k != KEY, z3.Not(T.anc(k, KEY)), z3.Not(T.anc(KEY, k)))
        goal = z3.And(r == T.mix(O1, T.single(KEY, V)),
                      z3.Implies(z3.Not(T.isdict(V)), z3.And(T.has(r, KEY), T.get(r, KEY) == V)))
        vcs.append(VC(f"Option.set:C04:value-set#{i}", hyp + p.pc + p.defs, goal, {"law": "C04", "cls": "Option.set"}))
        goal2 = z3.ForAll([k], z3.Implies(z3.And(unrelated, z3.Not(T.shadow(T.single(KEY, V), k))),
                                          z3.And(T.has(r, k) == T.has(O1, k), z3.Implies(z3.And(T.has(O1, k), z3.Not(T.isdict(T.get(O1, k)))), T.get(r, k) == T.get(O1, k)))))
        vcs.append(VC(f"Option.set:C04:other-keys-intact#{i}", hyp + p.pc + p.defs + [r == T.mix(O1, T.single(KEY, V))], goal2, {"law": "C04", "cls": "Option.set"}))
        stores = [e for e in flat_events(p.trace) if e[0] in ("store", "heap-write")]
        syn.append({"name": f"Option.set:C04:input-not-modified#{i}", "ok": not stores, "detail": str(stores[:1]), "group": "Option.set:C04"})
    return vcs, [], syn


def auto_and_namespace(repo):
    """_Auto.option/build produce the Option for EXACTLY the key asked for, with the stored default/type/domain; Namespace.__getitem__
    builds auto members under `<namespace key>.<name>`; Namespace._inherit re-keys members carrying default, type and domain."""
    out, und = [], []
    om = repo.module("option")
    auto = om.classes["_Auto"]
    ns = om.classes["Namespace"]

    def ob(g, name, ok, detail=""):
        out.append({"name": f"{g}:C04:{name}", "ok": bool(ok), "detail": str(detail)[:200], "group": f"{g}:C04"})

    def is_field(v, cls, name):
        return str(getattr(v, "term", None)) == f"fld!{cls}.{name}(self)"

    for meth in ("option", "build"):
        for key in ("NS.A", "OTHER.NS.A"):
            def run(ex, meth=meth, key=key):
                s = ex.sym_self(auto)
                s.fields["transformations"] = PyList([])
                # two consecutive requests for different keys on the same _Auto object: the second must not see the first
                ex.call(ex.getattr(s, meth), ["FIRST.KEY"], {})
                return ex.call(ex.getattr(s, meth), [key], {})
            ps = _run(repo, run)
            u = sorted({p.value for p in ps if p.kind == "unsupported"})
            if u:
                und.append((f"_Auto.{meth}", u))
                continue
            for i, p in enumerate(ps):
                o = p.value
                if p.kind == "exc" and isinstance(o, Obj) and o.clsname in ("ValueError", "TypeError"):
                    continue      # input validation of Option/Template constructors (malformed default template, invalid domain)
                good = p.kind == "ok" and isinstance(o, Obj) and o.clsname == "Option"
                ob(f"_Auto.{meth}", f"returns-an-Option[{key}]#{i}", good, repr(o))
                if good:
                    ob(f"_Auto.{meth}", f"key-is-the-requested-key[{key}]#{i}", o.fields.get("key") == key, o.fields.get("key"))
                    ob(f"_Auto.{meth}", f"carries-type[{key}]#{i}", is_field(o.fields.get("type"), "_Auto", "type"))
                    d = o.fields.get("default")
                    dm = o.fields.get("domain")
                    # default/domain went through Option.__init__'s normalisation of the stored values
                    ob(f"_Auto.{meth}", f"carries-default-and-domain[{key}]#{i}", "fld!_Auto.default(self)" in (str(getattr(d, "term", "")) + repr(getattr(d, "fields", ""))) or d is MISSING
                       or any("fld!_Auto.default(self)" in str(c) for c in p.pc), repr(d))
    # Namespace.__getitem__ on an _Auto member
    def run(ex):
        s = ex.sym_self(ns)
        a = Obj(auto, {"default": 3, "doc": "", "type": Sym("val", z3.Const("ty", T.Val)), "domain": MISSING, "transformations": PyList([])}, z3.Const("auto1", T.Ev))
        opt = Obj(om.classes["Option"], {"key": "NS.B"}, z3.Const("opt1", T.Ev))
        s.fields["_key"] = "PARENT.NS"
        s.fields["_members"] = PyDict({"A": a, "B": opt})
        return PyTuple([ex.getitem(s, "A") if False else ex.call(ex.getattr(s, "__getitem__"), ["A"], {}), ex.call(ex.getattr(s, "__getitem__"), ["B"], {})])
    ps = _run(repo, run)
    u = sorted({p.value for p in ps if p.kind == "unsupported"})
    if u:
        und.append(("Namespace.__getitem__", u))
    else:
        for i, p in enumerate(ps):
            good = p.kind == "ok"
            ob("Namespace.__getitem__", f"resolves-members#{i}", good, repr(p.value))
            if good:
                a, b = p.value.items
                ob("Namespace.__getitem__", f"auto-member-key-is-namespace-key-dot-name#{i}", isinstance(a, Obj) and a.fields.get("key") == "PARENT.NS.A", getattr(a, "fields", {}).get("key"))
                ob("Namespace.__getitem__", f"auto-member-default-normalised#{i}", isinstance(a, Obj) and isinstance(a.fields.get("default"), Obj) and a.fields["default"].fields.get("value") == 3)
                ob("Namespace.__getitem__", f"option-member-returned-as-stored#{i}", isinstance(b, Obj) and str(b.term) == "opt1")
    # Namespace._inherit
    def run2(ex):
        s = ex.sym_self(ns)
        dflt = Sym("ev", z3.Const("dflt", T.Ev))
        dom = Sym("ev", z3.Const("dom", T.Ev))
        ty = Sym("val", z3.Const("ty", T.Val))
        opt = Obj(om.classes["Option"], {"key": "NS.B", "default": dflt, "type": ty, "domain": dom, "__doc__": ""}, z3.Const("opt1", T.Ev))
        s.fields["_key"] = "NS"
        s.fields["_members"] = PyDict({"B": opt})
        return ex.call(ex.getattr(s, "_inherit"), ["PARENT"], {})
    ps = _run(repo, run2)
    u = sorted({p.value for p in ps if p.kind == "unsupported"})
    if u:
        und.append(("Namespace._inherit", u))
    else:
        for i, p in enumerate(ps):
            r = p.value
            good = p.kind == "ok" and isinstance(r, Obj) and r.clsname == "Namespace" and r.fields.get("_key") == "PARENT.NS"
            ob("Namespace._inherit", f"rekeys-the-namespace#{i}", good, repr(r))
            if good:
                m = r.fields.get("_members")
                b = m.items.get("B") if isinstance(m, PyDict) else None
                ob("Namespace._inherit", f"member-key-prefixed#{i}", isinstance(b, Obj) and b.fields.get("key") == "PARENT.NS.B", getattr(b, "fields", {}).get("key"))
                ob("Namespace._inherit", f"member-keeps-default-type-domain#{i}", isinstance(b, Obj) and str(getattr(b.fields.get("default"), "term", "")) == "dflt"
                   and str(getattr(b.fields.get("type"), "term", "")) == "ty" and str(getattr(b.fields.get("domain"), "term", "")) == "dom",
                   {k: repr(v) for k, v in getattr(b, "fields", {}).items()})
    return out, und
