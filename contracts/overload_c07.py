"""C07: heap contracts on Overloaded.register / Overloaded.switch / Dataset.register / Dataset.set_dispatch (structural obligations on the
symbolic runs of the real bodies)."""
from __future__ import annotations

import z3

from pyvc import theory as T
from pyvc.values import *  # noqa
from pyvc.symex import explore
from .laws import SELF, flat_events, FN_CONTRACTS

CFG = {"abstract_classes": (), "fn_contracts": FN_CONTRACTS}


def obligations(repo):
    out, und = [], []
    om = repo.module("overload")
    OV = om.classes["Overloaded"]
    DS = repo.module("dataset").classes["Dataset"]

    def ob(g, name, ok, detail=""):
        out.append({"name": f"{g}:C07:{name}", "ok": bool(ok), "detail": str(detail)[:160], "group": f"{g}:C07"})

    KEY, VAL = Sym("val", z3.Const("alias", T.Val)), Sym("ev", z3.Const("impl", T.Ev))

    # ---- Overloaded.register
    def run(ex):
        s = ex.sym_self(OV)
        ex.call(ex.getattr(s, "register"), [KEY, VAL], {})
        return s
    ps = explore(repo, run, tag="ov", config=CFG)
    u = sorted({p.value for p in ps if p.kind == "unsupported"})
    if u:
        und.append(("Overloaded.register", u))
    for i, p in enumerate(ps):
        if p.kind == "unsupported":
            continue
        s = p.value
        lk = s.fields.get("lookup") if p.kind == "ok" else None
        upd = getattr(lk, "updated_from", None)
        good = upd is not None and str(upd[1]) == "alias" and str(getattr(upd[2], "term", "")) == "impl" and str(upd[0].n) == "fld!Overloaded.lookup#n(self)"
        ob("Overloaded.register", f"lookup-becomes-lookup-plus-alias#{i}", good, repr(lk))
        evs = list(p.trace)
        stores = [n for n, e in enumerate(evs) if e[0] == "store" and e[1].eq(SELF)]
        acq = [n for n, e in enumerate(evs) if e[0] == "acquire"]
        rel = [n for n, e in enumerate(evs) if e[0] == "release"]
        ob("Overloaded.register", f"only-lookup-is-written-under-the-instance-lock#{i}",
           len(stores) == 1 and evs[stores[0]][2] == "lookup" and acq and rel and acq[0] < stores[0] < rel[0], (stores, acq, rel))
        ob("Overloaded.register", f"evaluates-nothing#{i}", not [e for e in evs if e[0] in ("call", "apply", "req", "cache")])

    # ---- Overloaded.switch is rebuilt from the CURRENT dispatch / lookup / default
    def run2(ex):
        s = ex.sym_self(OV)
        return ex.getattr(s, "switch")
    ps = explore(repo, run2, tag="sw", config=CFG)
    for i, p in enumerate(ps):
        if p.kind == "unsupported":
            und.append(("Overloaded.switch", [p.value]))
            continue
        r = p.value
        good = p.kind == "ok" and isinstance(r, Obj) and r.clsname == "Switch"
        ob("Overloaded.switch", f"is-a-switch#{i}", good, repr(r))
        if good:
            ob("Overloaded.switch", f"over-the-current-dispatch#{i}", str(getattr(r.fields.get("dispatch"), "term", "")) == "fld!Overloaded.dispatch(self)")
            lk = r.fields.get("lookup")
            ob("Overloaded.switch", f"over-the-current-lookup#{i}", isinstance(lk, MapV) and str(lk.n) == "fld!Overloaded.lookup#n(self)")
            d = r.fields.get("default")
            ob("Overloaded.switch", f"over-the-current-default#{i}", d is MISSING or "fld!Overloaded.default(self)" in str(getattr(d, "term", "")), repr(d))

    # ---- Dataset.register / set_dispatch
    def run3(ex):
        s = ex.sym_self(DS)
        ex.call(ex.getattr(s, "register"), [KEY, VAL], {})
        return s
    ps = explore(repo, run3, tag="dr", config=CFG)
    for i, p in enumerate(ps):
        if p.kind == "unsupported":
            und.append(("Dataset.register", [p.value]))
            continue
        evs = list(p.trace)
        st = [e for e in evs if e[0] == "store"]
        ob("Dataset.register", f"writes-only-the-overload-table#{i}", len(st) == 1 and str(st[0][1]) == "fld!Dataset.overloads(self)" and st[0][2] == "lookup", st[:2])
        ob("Dataset.register", f"cache-and-other-fields-untouched#{i}", not any(e[0] == "store" and e[1].eq(SELF) for e in evs))

    DISP = Sym("ev", z3.Const("newdispatch", T.Ev))

    def run4(ex):
        s = ex.sym_self(DS)
        ex.call(ex.getattr(s, "set_dispatch"), [DISP], {})
        return s
    ps = explore(repo, run4, tag="sd", config=CFG)
    for i, p in enumerate(ps):
        if p.kind == "unsupported":
            und.append(("Dataset.set_dispatch", [p.value]))
            continue
        s = p.value
        o = s.fields.get("overloads") if p.kind == "ok" else None
        good = isinstance(o, Obj) and o.clsname == "Overloaded" and str(getattr(o.fields.get("dispatch"), "term", "")) == "newdispatch"
        ob("Dataset.set_dispatch", f"new-overloads-over-the-new-dispatch#{i}", good, repr(o))
        if good:
            lk = o.fields.get("lookup")
            ob("Dataset.set_dispatch", f"keeps-the-registered-implementations#{i}", (isinstance(lk, MapV) and "fld!Overloaded.lookup#n(fld!Dataset.overloads(self))" in str(lk.n))
               or (isinstance(lk, PyDict) and not lk.items and any("lookup#n" in str(c) and str(c).startswith("Not(") for c in p.pc)), repr(lk))
            d = o.fields.get("default")
            ob("Dataset.set_dispatch", f"keeps-the-default#{i}", d is MISSING or "fld!Overloaded.default(fld!Dataset.overloads(self))" in str(getattr(d, "term", "")), repr(d))
        stores = [e for e in p.trace if e[0] == "store" and e[1].eq(SELF)]
        ob("Dataset.set_dispatch", f"writes-only-overloads#{i}", all(e[2] == "overloads" for e in stores) and len(stores) == 1, stores)
    return out, und
