"""C07: heap contracts on Overloaded.register / Overloaded.switch / Dataset.register / Dataset.set_dispatch (structural obligations on the
symbolic runs of the real bodies)."""
from __future__ import annotations

import z3

from pyvc import theory as T
from pyvc.values import *  # noqa
from pyvc.symex import explore
from .laws import SELF, flat_events, FN_CONTRACTS

CFG = {"abstract_classes": (), "fn_contracts": FN_CONTRACTS}


def obligations(repo):
    out, und = [], []
    om = repo.module("overload")
    OV = om.classes["Overloaded"]
    DS = repo.module("dataset").classes["Dataset"]

    def ob(g, name, ok, detail=""):
        out.append({"name": f"{g}:C07:{name}", "ok": bool(ok), "detail": str(detail)[:160], "group": f"{g}:C07"})

    KEY, VAL = Sym("val", z3.Const("alias", T.Val)), Sym("ev", z3.Const("impl", T.Ev))

    # ---- Overloaded.register
    def run(ex):
        s = ex.sym_self(OV)
        ex.call(ex.getattr(s, "register"), [KEY, VAL], {})
        return s
    ps = explore(repo, run, tag="ov", config=CFG)
    u = sorted({p.value for p in ps if p.kind == "unsupported"})
    if u:
        und.append(("Overloaded.register", u))
    for i, p in enumerate(ps):
        if p.kind == "unsupported":
            continue
        s = p.value
        lk = s.fields.get("lookup") if p.kind == "ok" else None
        upd = getattr(lk, "updated_from", None)
        good = upd is not None and str(upd[1]) == "alias" and str(getattr(upd[2], "term", "")) == "impl" and str(upd[0].n) == "fld!Overloaded.lookup#n(self)"
        ob("Overloaded.register", f"lookup-becomes-lookup-plus-alias#{i}", good, repr(lk))
        evs = list(p.trace)
        stores = [n for n, e in enumerate(evs) if e[0] == "store" and e[1].eq(SELF)]
        acq = [n for n, e in enumerate(evs) if e[0] == "acquire"]
        rel = [n for n, e in enumerate(evs) if e[0] == "release"]
        ob("Overloaded.register", f"only-lookup-is-written-under-the-instance-lock#{i}",
           len(stores) == 1 and evs[stores[0]][2] == "lookup" and acq and rel and acq[0] < stores[0] < rel[0], (stores, acq, rel))
        ob("Overloaded.register", f"evaluates-nothing#{i}", not [e for e in evs if e[0] in ("call", "apply", "req", "cache")])

    # ---- Overloaded.switch is rebuilt from the CURRENT dispatch / lookup / default
    def run2(ex):
        s = ex.sym_self(OV)
        return ex.getattr(s, "switch")
    ps = explore(repo, run2, tag="sw", config=CFG)
    for i, p in enumerate(ps):
        if p.kind == "unsupported":
            und.append(("Overloaded.switch", [p.value]))
            continue
        r = p.value
        good = p.kind == "ok" and isinstance(r, Obj) and r.clsname == "Switch"
        ob("Overloaded.switch", f"is-a-switch#{i}", good, repr(r))
        if good:
            ob("Overloaded.switch", f"over-the-current-dispatch#{i}", str(getattr(r.fields.get("dispatch"), "term", "")) == "fld!Overloaded.dispatch(self)")
            lk = r.fields.get("lookup")
            ob("Overloaded.switch", f"over-the-current-lookup#{i}", isinstance(lk, MapV) and str(lk.n) == "fld!Overloaded.lookup#n(self)")
            d = r.fields.get("default")
            ob("Overloaded.switch", f"over-the-current-default#{i}", d is MISSING or "fld!Overloaded.default(self)" in str(getattr(d, "term", "")), repr(d))

    # ---- Dataset.register / set_dispatch
    def run3(ex):
        s = ex.sym_self(DS)
        ex.call(ex.getattr(s, "register"), [KEY, VAL], {})
        return s
    ps = explore(repo, run3, tag="dr", config=CFG)
    for i, p in enumerate(ps):
        if p.kind == "unsupported":
            und.append(("Dataset.register", [p.value]))
            continue
        evs = list(p.trace)
        st = [e for e in evs if e[0] == "store"]
        ob("Dataset.register", f"writes-only-the-overload-table#{i}", len(st) == 1 and str(st[0][1]) == "fld!Dataset.overloads(self)" and st[0][2] == "lookup", st[:2])
        ob("Dataset.register", f"cache-and-other-fields-untouched#{i}", not any(e[0] == "store" and e[1].eq(SELF) for e in evs))

    DISP = Sym("ev", z3.Const("newdispatch", T.Ev))

    def run4(ex):
        s = ex.sym_self(DS)
        ex.call(ex.getattr(s, "set_dispatch"), [DISP], {})
        return s
    ps = explore(repo, run4, tag="sd", config=CFG)
    for i, p in enumerate(ps):
        if p.kind == "unsupported":
            und.append(("Dataset.set_dispatch", [p.value]))
            continue
        s = p.value
        o = s.fields.get("overloads") if p.kind == "ok" else None
        good = isinstance(o, Obj) and o.clsname == "Overloaded" and str(getattr(o.fields.get("dispatch"), "term", "")) == "newdispatch"
        ob("Dataset.set_dispatch", f"new-overloads-over-the-new-dispatch#{i}", good, repr(o))
        if good:
            lk = o.fields.get("lookup")
            ob("Dataset.set_dispatch", f"keeps-the-registered-implementations#{i}", (isinstance(lk, MapV) and "fld!Overloaded.lookup#n(fld!Dataset.overloads(self))" in str(lk.n))
               or (isinstance(lk, PyDict) and not lk.items and any("lookup#n" in str(c) and str(c).startswith("Not(") for c in p.pc)), repr(lk))
            d = o.fields.get("default")
            ob("Dataset.set_dispatch", f"keeps-the-default#{i}", d is MISSING or "fld!Overloaded.default(fld!Dataset.overloads(self))" in str(getattr(d, "term", "")), repr(d))
        stores = [e for e in p.trace if e[0] == "store" and e[1].eq(SELF)]
        ob("Dataset.set_dispatch", f"writes-only-overloads#{i}", all(e[2] == "overloads" for e in stores) and len(stores) == 1, stores)
    return out, und


def overload_decorator(repo):
    """Dataset.overload(alias)(func): ONE dataset is built from a plain function (none when func already is a dataset), it is registered under EVERY alias
    and it is what the decorator returns - so the implementations reached through different aliases share one cache and one effect list (C02, C07).
    `dataset(func)` and `self.register` are used by contract here (each call of dataset() allocates a NEW dataset; register is proved above)."""
    out, und = [], []
    DS = repo.module("dataset").classes["Dataset"]

    def ob(name, ok, detail=""):
        out.append({"name": f"Dataset.overload:C07:{name}", "ok": bool(ok), "detail": str(detail)[:160], "group": "Dataset.overload:C07"})

    def _mk(ex, vars):
        d = vars.get("definition")
        t = ex.fresh("newds", T.Ev)
        # which settings of the new dataset the call overrides (everything but the definition must be left at its default, None)
        over = sorted(k for k, v in vars.items() if k not in ("self", "definition") and v is not None)
        ex.event("mkdataset", ex.as_val(d) if d is not None else None, t, tuple(over))
        return Sym("ev", t, DS)

    def _reg(ex, vars):
        ex.event("register", ex.as_val(vars["key"]) if not isinstance(vars["key"], str) else vars["key"], ex.as_ev(vars["value"]))
        return None
    cfg = {"abstract_classes": (), "fn_contracts": {**FN_CONTRACTS, ("labrea.dataset", "DatasetFactory.__call__"): _mk, ("labrea.dataset", "Dataset.register"): _reg}}
    FN = z3.Const("fn", T.Val)
    for label, alias, n_alias, func_is_ds in (("two-aliases", PyList(["a", "b"]), 2, False), ("one-alias", "a", 1, False), ("symbolic-alias", Sym("val", z3.Const("alias", T.Val)), 1, False),
                                             ("dataset-given", PyList(["a", "b"]), 2, True)):
        def run(ex, alias=alias, func_is_ds=func_is_ds):
            s = ex.sym_self(DS)
            deco = ex.call(ex.getattr(s, "overload"), [alias], {})
            f = Sym("ev", z3.Const("given", T.Ev), DS) if func_is_ds else Sym("val", FN)
            if not func_is_ds:
                ex.assume(z3.Not(T.isev(FN)))
            return ex.call(deco, [f], {})
        ps = explore(repo, run, tag="od", config=cfg)
        u = sorted({p.value for p in ps if p.kind == "unsupported"})
        if u:
            und.append(("Dataset.overload", u))
            continue
        oks = [p for p in ps if p.kind == "ok"]
        ob(f"{label}:some-path-returns", bool(oks))
        for i, p in enumerate(oks):
            evs = list(flat_events(p.trace))
            mk = [e for e in evs if e[0] == "mkdataset"]
            regs = [e for e in evs if e[0] == "register"]
            ret = getattr(p.value, "term", None)
            ob(f"{label}:builds-one-dataset#{i}", len(mk) == (0 if func_is_ds else 1), len(mk))
            # "decorated like any other dataset": the overload gets the DEFAULT settings (its own fresh memory cache, no effects, no options), whatever the parent's are
            ob(f"{label}:built-with-default-settings#{i}", all(len(e) > 3 and not e[3] for e in mk), [e[3] for e in mk if len(e) > 3][:2])
            if label == "symbolic-alias":
                # a non-list alias may itself be a list at run time: both shapes are paths; every registration uses the returned object
                ob(f"{label}:every-registration-uses-the-returned-dataset#{i}", regs and all(ret is not None and r[2].eq(ret) for r in regs) or
                   any(t[0] == "loop" for t in p.trace), [str(r[2]) for r in regs][:3])
            else:
                ob(f"{label}:registered-under-every-alias#{i}", len(regs) == n_alias, len(regs))
                ob(f"{label}:every-registration-uses-the-returned-dataset#{i}", regs and all(ret is not None and r[2].eq(ret) for r in regs), [str(r[2]) for r in regs][:3])
        for i, p in enumerate(ps):
            if p.kind == "exc":
                x = p.value
                ob(f"{label}:rejects-only-a-dataset-without-dispatch#{i}", isinstance(x, Obj) and x.clsname == "ValueError" and not [e for e in flat_events(p.trace) if e[0] == "register"], repr(x))
    return out, und
