"""C20 (labrea side only, relative to the assumed contract of pickle): Overloaded state round trip, identity comparisons enumerated
from the AST, behaviour = function of state."""
from __future__ import annotations

import ast

import z3

from pyvc import theory as T
from pyvc.values import *  # noqa
from pyvc.symex import explore
from .laws import FN_CONTRACTS

T.assume("P-obj", "pickle rebuilds an instance of a class without __reduce__ from its class (by reference) and __getstate__()/__dict__, applied with "
         "__setstate__/__dict__.update, yielding an isomorphic object graph (Enum members such as MISSING and module-level singletons stay identical)")
T.assume("P-fn", "a function pickles by reference: getattr(import(f.__module__), f.__qualname__) must be f at dump time and is what load returns")


def obligations(repo):
    out, und = [], []
    om = repo.module("overload")
    OV = om.classes["Overloaded"]

    def ob(g, name, ok, detail=""):
        out.append({"name": f"{g}:C20:{name}", "ok": bool(ok), "detail": str(detail)[:200], "group": f"{g}:C20"})

    # (1) __setstate__(__getstate__(x)) restores dispatch/lookup/default and re-creates a real lock
    def run(ex):
        s = ex.sym_self(OV)
        for f in ("dispatch", "lookup", "default", "_lock"):
            ex.getattr(s, f)
        st = ex.call(ex.getattr(s, "__getstate__"), [], {})
        fresh = Obj(OV, {}, z3.Const("loaded", T.Ev))
        ex.call(ex.getattr(fresh, "__setstate__"), [st], {})
        return PyTuple([s, st, fresh])
    ps = explore(repo, run, tag="pk", config={"abstract_classes": (), "fn_contracts": FN_CONTRACTS})
    u = sorted({p.value for p in ps if p.kind == "unsupported"})
    if u:
        und.append(("Overloaded.__getstate__/__setstate__", u))
    for i, p in enumerate(ps):
        if p.kind != "ok":
            if p.kind == "exc":
                ob("Overloaded", f"state-round-trip-does-not-raise#{i}", False, repr(p.value))
            continue
        s, st, fresh = p.value.items
        ob("Overloaded", f"pickled-state-holds-no-lock-object#{i}", isinstance(st, PyDict) and not isinstance(st.items.get("_lock"), LockV), repr(st.items.get("_lock")) if isinstance(st, PyDict) else st)
        for f in ("dispatch", "lookup", "default"):
            a, b = s.fields.get(f), fresh.fields.get(f)
            same = (a is b) or (str(getattr(a, "term", a)) == str(getattr(b, "term", b)) and type(a) is type(b)) or (isinstance(a, MapV) and a is b)
            ob("Overloaded", f"restores-{f}#{i}", same, (repr(a), repr(b)))
        ob("Overloaded", f"loaded-object-has-a-real-lock#{i}", isinstance(fresh.fields.get("_lock"), LockV), repr(fresh.fields.get("_lock")))
    # (2) identity comparisons of /repo: the right operand is preserved by (P-obj)
    allowed = {"None", "MISSING", "param.empty", "request.evaluatable", "True", "False", "_DatasetClassMixin"}
    for m in repo.modules.values():
        bad = []
        for n in ast.walk(m.tree):
            if isinstance(n, ast.Compare):
                for op, right in zip(n.ops, n.comparators):
                    if isinstance(op, (ast.Is, ast.IsNot)) and ast.unparse(right) not in allowed:
                        bad.append(ast.unparse(n))
        ob(m.name, "identity-comparisons-only-against-pickle-stable-singletons", not bad, bad[:2])
    # (3) no class of /repo defines __reduce__/__reduce_ex__ (so P-obj applies), only Overloaded customises its state
    custom = [(c.name, k) for c in repo.all_classes() for k in ("__reduce__", "__reduce_ex__", "__getstate__", "__setstate__", "__getnewargs__") if k in c.methods]
    ob("labrea", "only-Overloaded-customises-pickling", sorted(custom) == [("Overloaded", "__getstate__"), ("Overloaded", "__setstate__")], custom)
    return out, und
