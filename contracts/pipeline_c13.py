"""C13: Pipeline.evaluate / transform / __add__ (one-level structural cases) and the step classes."""
from __future__ import annotations

import z3

from pyvc import theory as T
from pyvc.values import *  # noqa
from pyvc.solve import VC
from pyvc.symex import explore
from .laws import Runs, base_noregion, O1, SELF, flat_events, unsupported, FN_CONTRACTS

X = z3.Const("x!obs", T.Val)


def a1(x):
    return T.pack(T.mkseq(z3.IntVal(1), z3.Store(z3.K(T.I, T.DFLT), 0, x)), T.NOKW)


def evaluate_spec(repo):
    ci = repo.module("pipeline").classes["Pipeline"]
    R = Runs(repo, ci)
    ps = R.paths("evaluate", 1)
    if unsupported(ps):
        return [], [], [("Pipeline.evaluate", sorted(set(unsupported(ps))))]
    hyp = base_noregion(ci)
    tail = z3.Function("fld!Pipeline.tail", T.Ev, T.Ev)(SELF)
    restv = z3.Function("fld!Pipeline.rest", T.Ev, T.Val)(SELF)
    rest = T.ev_of(restv)
    tv, rv = T.EVval(tail, O1), T.EVval(rest, O1)
    vcs, syn = [], []
    for i, p in enumerate(ps):
        applies = [e for e in flat_events(p.trace) if e[0] == "apply"]
        if p.kind == "ok":
            inner = z3.If(restv == T.NONE, X, T.call_val(rv, a1(X)))
            goal = z3.And(T.EVok(tail, O1), z3.Implies(restv != T.NONE, z3.And(T.EVok(rest, O1), T.call_ok(rv, a1(X)))),
                          T.call_ok(tv, a1(inner)), p.value[1] == T.call_val(tv, a1(inner)))
            vcs.append(VC(f"Pipeline:C13:evaluates-to-tail-after-rest#{i}", hyp + p.pc + p.defs, goal, {"law": "C13", "cls": "Pipeline"}))
            # order of application: rest first, then tail (the last application is the tail's)
            if applies:
                vcs.append(VC(f"Pipeline:C13:tail-applied-last#{i}", hyp + p.pc + p.defs, applies[-1][1] == tv, {"law": "C13", "cls": "Pipeline"}))
        evs = [e for e in flat_events(p.trace) if e[0] == "call" and e[1] == "evaluate" and not e[2].eq(SELF)]
        syn.append({"name": f"Pipeline:C13:steps-evaluated-under-the-same-options#{i}", "ok": all(str(e[3]) == "o" for e in evs), "detail": "", "group": "Pipeline:C13"})
    return vcs, syn, []


def add_cases(repo):
    """Pipeline.__add__ / PipelineStep.__add__ / Pipeline.__init__: structural one-level cases"""
    out, und = [], []
    pm = repo.module("pipeline")
    P, S = pm.classes["Pipeline"], pm.classes["PipelineStep"]

    def ob(name, ok, detail=""):
        out.append({"name": f"Pipeline.__add__:C13:{name}", "ok": bool(ok), "detail": str(detail)[:160], "group": "Pipeline.__add__:C13"})

    def run_add(ex, other):
        s = ex.sym_self(P)
        return ex.call(ex.getattr(s, "__add__"), [other], {})
    cfg = {"abstract_classes": (), "fn_contracts": FN_CONTRACTS}
    # + step
    step = Sym("ev", z3.Const("step", T.Ev), S)
    ps = explore(repo, lambda ex: run_add(ex, step), tag="pa", config=cfg)
    u = sorted({p.value for p in ps if p.kind == "unsupported"})
    if u:
        und.append(("Pipeline.__add__(step)", u))
    for i, p in enumerate(ps):
        if p.kind == "unsupported":
            continue
        r = p.value
        good = p.kind == "ok" and isinstance(r, Obj) and r.clsname == "Pipeline" and str(getattr(r.fields.get("tail"), "term", "")) == "step"
        ob(f"plus-step-appends-it-as-tail#{i}", good, repr(r))
        if good:
            rest = r.fields.get("rest")
            empty_self = rest is None
            is_self = isinstance(rest, Obj) and rest.term.eq(SELF)
            ob(f"plus-step-keeps-self-as-rest-unless-empty#{i}", is_self or empty_self, repr(rest))
        ob(f"plus-step-evaluates-nothing#{i}", not [e for e in flat_events(p.trace) if e[0] in ("call", "apply", "req")])
    # + plain callable
    fn = Sym("val", z3.Const("fn", T.Val))
    from pyvc.models import isinst_pred

    def run_callable(ex):
        # a plain callable or evaluatable that is neither a step nor a pipeline (those cases are the structural ones above / the bounded search)
        for cname in ("PipelineStep", "Pipeline"):
            ex.assume(z3.Not(z3.And(T.isev(fn.term), isinst_pred(cname)(T.ev_of(fn.term)))))
        return run_add(ex, fn)
    ps = explore(repo, run_callable, tag="pb", config=cfg)
    for i, p in enumerate(ps):
        if p.kind == "unsupported":
            und.append(("Pipeline.__add__(callable)", [p.value]))
            continue
        r = p.value
        ok = p.kind == "ok" and isinstance(r, Obj) and r.clsname == "Pipeline" and isinstance(r.fields.get("tail"), (Obj, Sym))
        ob(f"plus-callable-wraps-it-in-a-step#{i}", ok, repr(r))
    return out, und
