"""C01 - caching is transparent."""
from . import classlaws, fingerprint, cached_l7, dataset_tower, memcache_c02


def build(repo, tier, seed):
    vcs, und, sanity = fingerprint.build(repo)
    v2, syn2, und2 = cached_l7.build(repo, faulty=False, label="L7")
    v3, u3 = memcache_c02.build(repo)
    vcs = vcs + v3
    und = und + u3
    t_syn, t_und = dataset_tower.tower_obligations(repo)
    d_syn, d_und = dataset_tower.derive_obligations(repo)
    b = classlaws.bundle(repo, tier, seed, ("L2", "L3"), classes=classlaws.READY + ["Dataset"], extra_vcs=vcs + v2, extra_sanity=sanity)
    b["syntactic"] += syn2 + t_syn + d_syn
    from .common import history_induction
    h_syn, h_und = history_induction()
    b["syntactic"] += h_syn
    b["undecided"] += h_und
    b["assumptions"].append("the step from the one-operation obligations (invariant established, preserved by every operation, good behaviour under the invariant) to every finite history "
                            "is the abstract induction lean/Histories.lean, checked by the Lean 4 kernel (group Histories:lean); that the obligations instantiate its hypotheses is by inspection")
    b["undecided"] += und + und2 + t_und + d_und

    def witness(group, names, seed, inner=b["witness"]):
        if "MemoryCache" in group or "Cached" in group or "fingerprint" in group:
            from harness import cache_search
            w = cache_search.search(seed, faulty=False, switches=False, memo=True, budget=100)
            if w:
                return w
        return inner(group, names, seed)
    b["witness"] = witness
    b["assumptions"] += ["INV (cache invariant) is preserved by every store: obligation Cached:L7:stores-the-memo-free-value; that INV then holds along every "
                         "history is lean/Histories.lean",
                         "graph-mutating operations (register, set_dispatch, add_effects, set_cache) between a store and its hit are outside the transparency statement (C07 covers registration)"]
    from . import frame_state
    b["syntactic"] += frame_state.obligations(repo)
    b["assumptions"].append("no hidden state: outside constructors and the declared mutators (Overloaded.register/__setstate__, Dataset.set_dispatch/set_cache/enable_effects/disable_effects, "
                            "MemoryCache.set) no method of a class reaching the labrea ABCs stores into its receiver, its class or a module global (AST frame, group <Class>:frame)")
    return b
