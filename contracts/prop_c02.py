"""C02 - memoization is effective: one body run per relevant option assignment."""
from . import memcache_c02, cached_l7, effects_c16, dataset_tower, fingerprint, classlaws
from .common import fn_hashes


def build(repo, tier, seed):
    v1, u1 = memcache_c02.build(repo)
    v2, s2, u2 = cached_l7.build(repo, faulty=False, label="L8")
    v3, s3, u3 = effects_c16.computation(repo)
    t_syn, t_und = dataset_tower.tower_obligations(repo)
    v4, u4, sanity = fingerprint.build(repo)
    b = classlaws.bundle(repo, tier, seed, ("L1", "L2"), classes=["WithOptions", "EvaluatableKwargs", "EvaluatableArguments", "FunctionApplication"],
                         extra_vcs=v1 + v2 + v3 + v4, extra_sanity=sanity, bounded=False)
    b["vcs"] += preset_effectiveness(repo)
    b["syntactic"] += s2 + s3 + t_syn
    from .common import history_induction
    h_syn, h_und = history_induction()
    b["syntactic"] += h_syn
    b["undecided"] += h_und
    b["assumptions"].append("the step from the one-operation obligations (invariant established, preserved by every operation, good behaviour under the invariant) to every finite history "
                            "is the abstract induction lean/Histories.lean, checked by the Lean 4 kernel (group Histories:lean); that the obligations instantiate its hypotheses is by inspection")
    b["undecided"] += u1 + u2 + u3 + t_und + u4

    def witness(group, names, seed, inner=b["witness"]):
        from harness import cache_search
        return cache_search.search(seed, faulty=False, switches=False, memo=True) or inner(group, names, seed)
    b["witness"] = witness
    b["assumptions"] += [
        "a stored entry is found again: MemoryCache get/set/exists against the ghost view sigma (obligations MemoryCache:*), fingerprint identical for dictionaries agreeing on the "
        "reported keys (Cacheable:fingerprint:identical-when-agreeing); 'adding or changing options nothing refers to' is covered only through L2 (pruning direction) - the upward "
        "direction needs a static-mention law that is NOT proved (stated limitation)",
        "within one evaluation a shared dependency runs once: the second consumer's Cached.evaluate finds the entry stored by the first (L8 hit-runs-nothing + sigma threading through "
        "EvaluatableKwargs' comprehension, sequential order by the trace obligations)",
        "effects run once per body execution, after it, with its value, and never on a hit: Computation:C16 obligations + the tower structure (Computation and Logged inside Cached)"]
    from . import frame_state
    b["syntactic"] += frame_state.obligations(repo)
    b["assumptions"].append("no hidden state: outside constructors and the declared mutators (Overloaded.register/__setstate__, Dataset.set_dispatch/set_cache/enable_effects/disable_effects, "
                            "MemoryCache.set) no method of a class reaching the labrea ABCs stores into its receiver, its class or a module global (AST frame, group <Class>:frame)")
    from . import overload_c07
    o_syn, o_und = overload_c07.overload_decorator(repo)
    b["syntactic"] += o_syn
    b["undecided"] += o_und
    return b


def preset_effectiveness(repo):
    """WithOptions.keys/explain drop every key whose value is fully determined by the pre-set dictionary (so it cannot split cache entries):
    forced: the pre-set holds the key and either the caller does not or the pre-set value is not a section; defaults: the caller does not hold it."""
    import z3
    from pyvc import theory as T
    from pyvc.solve import VC
    from .laws import Runs, base_noregion, O1, SELF
    ci = repo.module("option").classes["WithOptions"]
    R = Runs(repo, ci)
    hyp = base_noregion(ci)
    force = z3.Function("fld!WithOptions.force", T.Ev, T.B)(SELF)
    P = z3.Function("fld!WithOptions.options", T.Ev, T.Opt)(SELF)
    k = z3.Const("k!pe", T.Key)
    determined = z3.And(T.has(P, k), z3.Or(z3.Not(T.has(O1, k)), z3.And(force, z3.Not(T.isdict(T.get(P, k))))))
    out = []
    for meth in ("keys", "explain"):
        for i, p in enumerate(R.paths(meth, 1)):
            if p.kind == "ok":
                out.append(VC(f"WithOptions:C02:{meth}-drops-keys-determined-by-the-preset#{i}", hyp + p.pc + p.defs,
                              z3.ForAll([k], z3.Implies(z3.IsMember(k, p.value[1]), z3.Not(determined))), {"law": "C02", "cls": "WithOptions"}))
    return out
