"""C02 - memoization is effective: one body run per relevant option assignment."""
from . import memcache_c02, cached_l7, effects_c16, dataset_tower, fingerprint, classlaws
from .common import fn_hashes


def build(repo, tier, seed):
    v1, u1 = memcache_c02.build(repo)
    v2, s2, u2 = cached_l7.build(repo, faulty=False, label="L8")
    v3, s3, u3 = effects_c16.computation(repo)
    t_syn, t_und = dataset_tower.tower_obligations(repo)
    v4, u4, sanity = fingerprint.build(repo)
    b = classlaws.bundle(repo, tier, seed, ("L1", "L2"), classes=["WithOptions", "EvaluatableKwargs", "EvaluatableArguments", "FunctionApplication"],
                         extra_vcs=v1 + v2 + v3 + v4, extra_sanity=sanity, bounded=False)
    b["syntactic"] += s2 + s3 + t_syn
    b["undecided"] += u1 + u2 + u3 + t_und + u4

    def witness(group, names, seed, inner=b["witness"]):
        from harness import cache_search
        return cache_search.search(seed, faulty=False, switches=False, memo=True) or inner(group, names, seed)
    b["witness"] = witness
    b["assumptions"] += [
        "a stored entry is found again: MemoryCache get/set/exists against the ghost view sigma (obligations MemoryCache:*), fingerprint identical for dictionaries agreeing on the "
        "reported keys (Cacheable:fingerprint:identical-when-agreeing); 'adding or changing options nothing refers to' is covered only through L2 (pruning direction) - the upward "
        "direction needs a static-mention law that is NOT proved (stated limitation)",
        "within one evaluation a shared dependency runs once: the second consumer's Cached.evaluate finds the entry stored by the first (L8 hit-runs-nothing + sigma threading through "
        "EvaluatableKwargs' comprehension, sequential order by the trace obligations)",
        "effects run once per body execution, after it, with its value, and never on a hit: Computation:C16 obligations + the tower structure (Computation and Logged inside Cached)"]
    return b
