"""C03 - keys() is sufficient and present-only; fingerprints depend on nothing else."""
from . import classlaws, fingerprint


def build(repo, tier, seed):
    vcs, und, sanity = fingerprint.build(repo)
    from . import templated_keys_proof
    v6, u6 = templated_keys_proof.build(repo)
    v7, u7 = templated_keys_proof.option_contract(repo)
    vcs = vcs + v6 + v7
    und = und + u6 + u7
    b = classlaws.bundle(repo, tier, seed, ("L1", "L2"), classes=classlaws.READY + ["Dataset", "_DatasetClassMeta"], extra_vcs=vcs, extra_sanity=sanity)
    # dataset classes report the union of their members' keys (every member the constructor evaluates): witness by the bounded dataset-class search

    def witness(group, names, seed, inner=b["witness"]):
        if group.startswith(("_DatasetClassMeta", "undecided:_DatasetClassMeta")):
            from harness import datasetclass_search
            w, _ = datasetclass_search.search(seed)
            if w:
                return w
        return inner(group, names, seed)
    b["witness"] = witness
    b["undecided"] += und
    b["functions"].append({"name": "labrea.types:Cacheable.fingerprint", "sha256_16": repo.sha(repo.module("types"), repo.module("types").classes["Cacheable"].methods["fingerprint"])})
    b["assumptions"].append("hash-seed independence: the engine gives iteration over a key set an arbitrary order (quantified), the only ordered consumer is sorted(); "
                            "that CPython's json/sorted are themselves seed-independent is assumed (dep.json, dep.sorted)")
    from . import frame_state
    b["syntactic"] += frame_state.obligations(repo)
    b["assumptions"].append("no hidden state: outside constructors and the declared mutators (Overloaded.register/__setstate__, Dataset.set_dispatch/set_cache/enable_effects/disable_effects, "
                            "MemoryCache.set) no method of a class reaching the labrea ABCs stores into its receiver, its class or a module global (AST frame, group <Class>:frame)")
    return b
