"""C04 - Option resolution: present key wins (even falsy), else default, else error."""
from . import classlaws, option_c04, lazy_c06


def build(repo, tier, seed):
    vcs, und = option_c04.evaluate_post(repo)
    v2, u2, syn2 = option_c04.set_post(repo)
    syn3, u3 = option_c04.init_normalisation(repo)
    syn4, u4 = option_c04.auto_and_namespace(repo)
    syn5, u5 = lazy_c06.obligations(repo, ["Option"])
    from . import templated_keys_proof
    v6, u6 = templated_keys_proof.build(repo)
    v7, u7 = templated_keys_proof.option_contract(repo)
    vcs = vcs + v6 + v7
    und = und + u6 + u7
    b = classlaws.bundle(repo, tier, seed, ("L1", "L3", "L4a"), classes=["Option"], extra_vcs=vcs + v2, bounded=False, crosscheck=True)
    b["syntactic"] += syn2 + syn3 + syn4 + syn5
    b["undecided"] += und + u2 + u3 + u4 + u5
    from . import frame_state
    b["syntactic"] += frame_state.obligations(repo)
    b["assumptions"].append("no hidden state: outside constructors and the declared mutators no method of a class reaching the labrea ABCs stores into its receiver, its class or a module global, "
                            "changes a container held in a field in place, or is wrapped in a memoising decorator; no function changes a module-level container except the declared owners of the "
                            "runtime and lock tables (AST frame, groups <Class>:frame and <module>:globals-frame)")
    from harness import lawsearch

    def witness(group, names, seed, inner=b["witness"]):
        w = lawsearch.search("Namespace", "C04", seed, 60) if ("Namespace" in group or "_Auto" in group) else None
        return w or lawsearch.search("Option", "C04", seed, 100) or inner(group, names, seed)
    b["witness"] = witness
    nsw = lawsearch.search("Namespace", "C04", seed, 40 if tier == "quick" else 400)
    b["bounded"] = [{"classes": ["Namespace._from_type (walks a class __dict__)", "Namespace.evaluate/_populate"], "bounds": "namespace recipes in harness/lawsearch.py x 55 dictionaries",
                     "cases": len(lawsearch.RECIPES.get("Namespace", [])) * 55}]
    b["bounded_witnesses"] = [("Namespace:C04(bounded)", nsw)] if nsw else []
    b["assumptions"] += ["the stored value is resolved by confectioner.resolve (assumed contract: template-free values incl. None, 0, False, '', [], {} are returned unchanged)",
                         "the contract of option._templated_keys used by Option.keys/explain is PROVED against its recursive body (group _templated_keys:contract) relative to the assumed, bounded-validated structure of confectioner.resolve (OptTheory.resolve.structure) and A-noparam",
                         "Namespace._from_type and Namespace.evaluate/_populate are covered by the bounded stand-in only"]
    return b
