"""C05 - combinators evaluate to what the equivalent eager Python computation yields."""
from . import classlaws, spec_c05


def build(repo, tier, seed):
    classes = [c for c in classlaws.READY if c in spec_c05.SPECS]
    b = classlaws.bundle(repo, tier, seed, ("C05",), classes=classes, crosscheck=True)
    b["assumptions"].append("spec terms are written from the property statement (contracts/spec_c05.py); Python operators and user callables are uninterpreted")
    return b
