"""C05 - combinators evaluate to what the equivalent eager Python computation yields."""
from . import classlaws, spec_c05


def build(repo, tier, seed):
    classes = [c for c in classlaws.READY + ["Dataset"] if c in spec_c05.SPECS]
    b = classlaws.bundle(repo, tier, seed, ("C05",), classes=classes, crosscheck=True)
    b["assumptions"].append("Dataset: evaluates to callback(implementation), both evaluated under mix(mix(default options, caller's options), pre-set options), proved compositionally: the temporaries "
                            "of Dataset._composed are used through the C05 specifications proved for WithOptions, Cached, Logged, Computation and Apply (spec_c05.tower_contracts), "
                            "effects that do not fail (region F15) and a sound cache backend (B-sound)")
    from . import frame_state
    b["syntactic"] += frame_state.obligations(repo)
    b["assumptions"].append("no hidden state: outside constructors and the declared mutators no method of a class reaching the labrea ABCs stores into its receiver, its class or a module global, "
                            "changes a container held in a field in place, or is wrapped in a memoising decorator; no function changes a module-level container except the declared owners of the "
                            "runtime and lock tables (AST frame, groups <Class>:frame and <module>:globals-frame)")
    from . import builders_c05
    bd_vcs, bd_syn, bd_und = builders_c05.build(repo)
    b["vcs"] += bd_vcs
    b["syntactic"] += bd_syn
    b["undecided"] += bd_und
    b["assumptions"].append("the builder API returns what it says (group builders:C05): apply/>>/bind build Apply/Bind(self, function), case/when/otherwise keep the dispatch, append the new case LAST and "
                            "set the default, cached wraps with the given or a fresh memory cache, WithDefaultOptions is a non-forced WithOptions; none evaluates anything")
    from . import definition_time
    pl_syn, pl_und = definition_time.plumbing(repo)
    b["syntactic"] += pl_syn
    b["undecided"] += pl_und
    from . import ctor_c05
    b["syntactic"] += ctor_c05.obligations(repo)
    b["assumptions"].append("constructors store their arguments faithfully: AST obligation over __init__ of the 29 classes reaching the labrea ABCs (every field is assigned from its own "
                            "parameter through order- and content-preserving normalisers only; no parameter is dropped) - the class laws and specifications are stated over the fields")
    from . import collections_c05
    from .common import fn_hashes
    c_syn, c_und = collections_c05.obligations(repo)
    b["syntactic"] += c_syn
    b["undecided"] += c_und
    fns, hs = fn_hashes(repo, ["labrea.collections:evaluatable_list", "labrea.collections:evaluatable_tuple", "labrea.collections:evaluatable_set", "labrea.collections:evaluatable_dict"])
    b["functions"] += fns
    b["hashes"].update(hs)
    b["group_hashes"]["collections:C05"] = hs
    b["assumptions"].append("collections (evaluatable_list/tuple/set/dict): proved to build Iter(members in order).apply(<constructor>), for dict over the (Value(key), value) pairs of the dictionary as it is at "
                            "construction; with the specifications of Iter and Apply this is 'collections keep order' (group collections:C05)")
    b["assumptions"].append("spec terms are written from the property statement (contracts/spec_c05.py); Python operators and user callables are uninterpreted")
    return b
