"""C06 - laziness: only bodies on the selected path run, and only when evaluated."""
from . import classlaws, lazy_c06, dataset_tower
from .common import fn_hashes

CLASSES = ["Option", "Switch", "Overloaded", "CaseWhen", "Coalesce", "Apply", "FunctionApplication", "PartialApplication", "Computation"]


def build(repo, tier, seed):
    syn, und = lazy_c06.obligations(repo, CLASSES)
    s2, u2 = lazy_c06.construction(repo)
    t_syn, t_und = dataset_tower.tower_obligations(repo)
    d_syn, d_und = dataset_tower.derive_obligations(repo)
    # inspection inside evaluation (coalesce validates its members, caches take keys()): validate/keys/explain of every class run no body
    # outside selector positions (law L10, from the traces of the real methods)
    r10 = classlaws.run(repo, ("L10",))
    syn = syn + r10["syntactic"]
    und = und + r10["undecided"]
    from . import factory, datasetclass_c19
    f_syn, f_und = factory.obligations(repo)
    syn = syn + [x for x in f_syn if "evaluates-nothing" in x["name"]]
    und = und + f_und
    from . import chained_effect, collections_c05
    ce_vcs, ce_und = chained_effect.build(repo)
    co_syn, co_und = collections_c05.obligations(repo)
    syn = syn + [x for x in co_syn if "evaluates-nothing" in x["name"]]
    ce_und = ce_und + co_und
    und = und + ce_und
    from . import definition_time
    dl_syn, dl_und = definition_time.laziness(repo)
    syn = syn + dl_syn
    und = und + dl_und
    import hashlib
    hashes = {"labrea/*.py": hashlib.sha256("".join(m.source for _, m in sorted(repo.modules.items())).encode()).hexdigest()[:16]}
    fns = []
    for c in CLASSES:
        ci = repo.find_class(c)
        if ci:
            fns.append({"name": f"{ci.module.name}:{c}.evaluate", "sha256_16": repo.sha(ci.module, repo.find_method(ci, "evaluate")[1])})
    return {"vcs": ce_vcs, "syntactic": syn + s2 + [x for x in t_syn + d_syn if "no-evaluation" in x["name"]], "undecided": und + u2 + t_und + d_und,
            "functions": fns, "hashes": hashes, "level": "proof", "witness": classlaws.witness_fn(tier),
            "trusted_base": ["the ghost trace recorded by the symbolic executor (every modular child call, user-callable application, request and cache access is an event)",
                             "obligations are decided on the trace of EVERY path of the real evaluate()/construction method: they hold for all graphs, member counts and dictionaries"],
            "assumptions": ["children are used by contract: 'a body runs' is observed as the evaluate call on the child that owns it",
                            "validate/keys/explain of every class under contract (used during evaluation by coalesce and by cache fingerprints) run no body outside selector positions: law L10 per class",
                            "construction-time: methods listed in contracts/lazy_c06.py CONSTRUCTORS + Dataset._composed/with_options; DatasetFactory.wrap (what @dataset finally calls) evaluates nothing (group DatasetFactory.wrap:C08); "
                            "every definition-time function (decorators, lift, factories, metaclass constructors, builders; list in contracts/definition_time.py) contains, outside nested functions, no call that "
                            "evaluates or inspects an expression (AST obligation, group definition-time:C06); what those functions build is the plumbing group of C05/C07/C13"]}
