"""C07 - overload and interface dispatch select exactly the registered implementation."""
from . import classlaws, overload_c07, dataset_tower


def build(repo, tier, seed):
    syn, und = overload_c07.obligations(repo)
    t_syn, t_und = dataset_tower.tower_obligations(repo)
    b = classlaws.bundle(repo, tier, seed, ("C05", "L2"), classes=["Switch", "Overloaded"], bounded=False)
    from . import interface_c07
    from .common import fn_hashes
    i_syn, i_und = interface_c07.obligations(repo)
    o_syn, o_und = overload_c07.overload_decorator(repo)
    i_syn, i_und = i_syn + o_syn, i_und + o_und
    b["syntactic"] += syn + [x for x in t_syn if "base=" in x["name"]] + i_syn
    b["undecided"] += und + t_und + i_und
    fns, hs = fn_hashes(repo, ["labrea.interface:Implementation.__init__", "labrea.interface:_build_overloads", "labrea.interface:_get_members"])
    b["functions"] += fns
    b["hashes"].update(hs)
    b["group_hashes"]["Implementation:C07"] = hs
    from harness import dispatch_search
    wit, n = dispatch_search.search(seed, 60 if tier == "quick" else 1500)
    b["bounded"] = [{"what": "register/overload (single, list and stacked aliases)/evaluate histories against a table model (evaluations are distinct options, so never 'already stored'); "
                             "interface + implementation: members resolve to one alias, defaults for members without override, missing/unknown member rejected and registers nothing",
                     "bounds": "histories of 2-7 operations over 3 aliases; one 4-member interface, 2 aliases", "cases": n}]
    b["bounded_witnesses"] = [("Dataset/Interface:C07(bounded)", wit)] if wit else []

    def witness(group, names, seed, inner=b["witness"]):
        w, _ = dispatch_search.search(seed, 200)
        return w or inner(group, names, seed)
    b["witness"] = witness
    b["assumptions"] += ["proved: Switch/Overloaded evaluate to the registered branch, else (unregistered or undeterminable dispatch) the default, else fail (C05 spec); Overloaded.switch is rebuilt "
                         "from the CURRENT dispatch/lookup/default on every use, so a registration applies to every later evaluation; register writes exactly lookup[alias] under the instance "
                         "lock; Dataset.register/set_dispatch touch only the overload table; the callback is applied outside the switch (tower); no stale cross-dispatch value: L2 for "
                         "Switch/Overloaded puts the dispatch's keys into the fingerprint (outside region F18)",
                         "structural (AST) obligations on Implementation.__init__ and its helpers: every rejection (omitted abstract member, unknown member name) precedes the first registration and nothing can reject afterwards (group Implementation:C07)",
                         "Dataset.overload(alias)(func) is under contract (group Dataset.overload:C07): one dataset is built, registered under every alias and returned (dataset() and register by contract)",
                         "bounded only: interface()/implements()/Interface.__init__ and which alias each member resolves to (metaclass code is outside the verifier's reach)"]
    from . import definition_time
    pl_syn, pl_und = definition_time.plumbing(repo)
    b["syntactic"] += pl_syn
    b["undecided"] += pl_und
    return b
