"""C08 - pre-set options override, defaults yield, sections merge; inputs never mutated."""
from . import classlaws, dataset_tower, frame_l11


def build(repo, tier, seed):
    b = classlaws.bundle(repo, tier, seed, ("C05",), classes=["WithOptions"])
    t_syn, t_und = dataset_tower.tower_obligations(repo)
    d_syn, d_und = dataset_tower.derive_obligations(repo)
    from . import factory
    from .common import fn_hashes
    f_syn, f_und = factory.obligations(repo)
    b["syntactic"] += t_syn + d_syn + frame_l11.obligations(repo) + f_syn
    b["undecided"] += t_und + d_und + f_und
    fns, hs = fn_hashes(repo, ["labrea.dataset:DatasetFactory.wrap"])
    b["functions"] += fns
    b["hashes"].update(hs)
    b["group_hashes"]["DatasetFactory.wrap:C08"] = hs
    b["assumptions"] += ["'P wins / o wins / sections merged key by key' is the assumed meaning of confectioner.mix (OptTheory.mix); what is proved is that "
                         "WithOptions evaluates the wrapped expression under exactly mix(o,P) resp. mix(P,o), that Dataset._composed is "
                         "WithDefaultOptions(WithOptions(cached(...), options), default_options), and that with_options/with_default_options carry every other field over",
                         "with_options(Q) where Q overlaps the dataset's own pre-set options is recorded finding F20 (the derivative's options win)",
                         "DatasetFactory.wrap (what @dataset finally calls) is under contract: the Dataset it returns carries the factory's dispatch (no registrations), the definition as default implementation (none when abstract), "
                         "effects, options, default options, Pipeline() + callback and the cache chosen by the stated rule, and evaluates nothing (group DatasetFactory.wrap:C08; Pipeline.__add__ and FunctionApplication.lift by contract)",
                         "DatasetFactory.__call__/update keyword merging and FunctionApplication.lift (inspect.signature) are not under contract (bounded stand-in: harness.lawsearch law C08 on decorator-built datasets)",
                         "L11 is a syntactic obligation over the AST of every method of every class of /repo/labrea; mix/resolve/get_dotted_key are pure by their assumed contracts"]
    from . import ctor_c05
    b["syntactic"] += [x for x in ctor_c05.obligations(repo) if x["name"].startswith(("DatasetFactory.", "Dataset.", "WithOptions."))]
    from . import definition_time
    pl_syn, pl_und = definition_time.plumbing(repo)
    b["syntactic"] += [x for x in pl_syn if x["name"].startswith(("DatasetFactory.update", "Map._create_option_set"))]
    b["undecided"] += pl_und
    return b
