"""C09 - templates substitute options and parameters transitively and report their reads."""
from . import classlaws, template_c09
from .common import fn_hashes


def build(repo, tier, seed):
    syn, und = template_c09.obligations(repo)
    from . import templated_keys_proof
    v6, u6 = templated_keys_proof.build(repo)
    v7, u7 = templated_keys_proof.option_contract(repo)
    from . import template_init
    v8, u8 = template_init.vcs(repo)
    b = classlaws.bundle(repo, tier, seed, ("L1", "L2", "L3", "L4a", "L4t", "L5", "L5b", "L5d", "L6", "L6v"), classes=["Option", "_AllOptions", "Template"], bounded=False,
                         extra_vcs=v6 + v7 + v8)
    b["syntactic"] += syn
    b["undecided"] += und + u6 + u7 + u8
    fns, hs = fn_hashes(repo, ["labrea.template:Template.__init__", "labrea.template:_literal", "labrea.option:_templated_keys"])
    b["functions"] += fns
    b["hashes"].update(hs)
    from harness import template_search
    wit, n = template_search.search(seed, 40 if tier == "quick" else 1500)
    b["bounded"].append({"what": "Template.evaluate against an independent substitution (transitive, escaped braces, parameters); keys/explain cover the keys it reads; templated Option defaults",
                         "bounds": "alphabet {lit, {A}, {S.X}, {B}, {:p:}, \\{, \\}, -}, up to 4 tokens, 8 dictionaries with reference depth <= 3", "cases": n})
    if wit:
        b["bounded_witnesses"].append(("Template:C09(bounded)", wit))

    def witness(group, names, seed, inner=b["witness"]):
        w, _ = template_search.search(seed, 200)
        return w or inner(group, names, seed)
    b["witness"] = witness
    b["assumptions"] += ["proved: Template.evaluate evaluates its parameters under the same options, performs the substitution by exactly one call resolve(template, mix(options, params)) and "
                         "returns its string form; a KeyError of the substitution becomes a KeyNotFoundError carrying the key; Option/AllOptions report the reads of templated values at any "
                         "nesting depth through the contract of option._templated_keys, which is PROVED against its recursive body (reads of the substitution are reported: TK-RD) relative to the assumed structure of confectioner.resolve",
                         "proved: Template.keys/explain/validate/evaluate satisfy the interface laws L1-L6 (keys sufficient and present-only, explain names the missing options, validate and evaluate "
                         "agree, failures are missing-option errors naming the key) relative to OptTheory.resolve.params/.escape (assumed, bounded-validated by harness/tp_validate.py), outside the regions of "
                         "F28 (A-plainrefs) and F31 (A-noparam); the class invariant 'every :name: placeholder is bound' is proved on Template.__init__ (group Template:init); the class contract of a "
                         "default-less Option used for the {KEY} references is proved on Option.evaluate/validate/keys/explain (group Option:contract)",
                         "NOT decided by proof: the substitution itself (escaped braces, str() forms, transitive replacement) happens inside confectioner.resolve (assumed contracts OptTheory.resolve*)"]
    return b
