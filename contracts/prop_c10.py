"""C10 - validate, keys and evaluate agree about whether options suffice."""
from . import classlaws, cached_l7


def build(repo, tier, seed):
    b = classlaws.bundle(repo, tier, seed, ("L3", "L4a", "L4t", "L10"), classes=classlaws.READY + ["Dataset"])
    vcs, syn, und = cached_l7.build(repo, faulty=False, label="L7")
    b["vcs"] += vcs
    b["syntactic"] += syn
    b["undecided"] += und
    return b
