"""C10 - validate, keys and evaluate agree about whether options suffice."""
from . import classlaws, cached_l7


def build(repo, tier, seed):
    b = classlaws.bundle(repo, tier, seed, ("L3", "L4a", "L4t", "L10"), classes=classlaws.READY + ["Dataset"])
    vcs, syn, und = cached_l7.build(repo, faulty=False, label="L7")
    b["vcs"] += vcs
    b["syntactic"] += syn
    b["undecided"] += und
    from . import chained_effect
    v4, u4 = chained_effect.build(repo)
    b["vcs"] += v4
    b["undecided"] += u4
    b["assumptions"].append("ChainedEffect (the effect a dataset wraps its effects in) validates iff every member validates, applies every member in order to the same value and options, "
                            "explains the union: specification obligations on its real bodies (group ChainedEffect:spec)")
    return b
