"""C10 - validate, keys and evaluate agree about whether options suffice."""
from . import classlaws


def build(repo, tier, seed):
    return classlaws.bundle(repo, tier, seed, ("L3", "L4a", "L4t", "L10"))
