"""C11 - explain() covers keys() and names every missing option."""
from . import classlaws


def build(repo, tier, seed):
    return classlaws.bundle(repo, tier, seed, ("L5", "L5b", "L5d", "L6v", "L10"), classes=classlaws.READY + ["Dataset"])
