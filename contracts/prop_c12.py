"""C12 - failures surface as EvaluationError with source and cause; never stored."""
from . import classlaws


def build(repo, tier, seed):
    b = classlaws.bundle(repo, tier, seed, ("L6", "L6k", "L6v"), classes=classlaws.READY + ["Dataset"])
    # "a failed evaluation stores nothing": nothing is stored at all outside the declared mutators and the cache backend
    from . import frame_state
    b["syntactic"] += frame_state.obligations(repo)
    b["assumptions"].append("no hidden state: outside constructors and the declared mutators no method of a class reaching the labrea ABCs stores into its receiver, its class or a module global, "
                            "changes a container held in a field in place, or is wrapped in a memoising decorator; no function changes a module-level container except the declared owners of the "
                            "runtime and lock tables (AST frame, groups <Class>:frame and <module>:globals-frame)")
    # user code that raises, in every position a user callable runs (bounded, real code): also the witness search when a class leaves the executor's subset
    from harness import lawsearch
    w, n = lawsearch.user_exception_search(seed, 6 if tier == "quick" else 40)
    b.setdefault("bounded", []).append({"what": "law L6u: an exception raised by user code (predicate, function, step, body, callback, effect, domain) surfaces as an EvaluationError whose source is the "
                                                "object evaluated and whose cause chain reaches the very exception raised; never a value",
                                        "bounds": f"{len(lawsearch.USER_RECIPES)} expression shapes x {len(lawsearch.USER_EXC)} exception types (incl. StopIteration, KeyError, LookupError) x dictionaries", "cases": n})
    b.setdefault("bounded_witnesses", [])
    if w:
        b["bounded_witnesses"].append(("user-code:L6u(bounded)", w))
    return b
