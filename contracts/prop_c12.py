"""C12 - failures surface as EvaluationError with source and cause; never stored."""
from . import classlaws


def build(repo, tier, seed):
    return classlaws.bundle(repo, tier, seed, ("L6", "L6k", "L6v"), classes=classlaws.READY + ["Dataset"])
