"""C13 - pipelines compose associatively; step parameters come from options and are keyed."""
from . import classlaws, pipeline_c13


def build(repo, tier, seed):
    vcs, syn, und = pipeline_c13.evaluate_spec(repo)
    syn2, und2 = pipeline_c13.add_cases(repo)
    b = classlaws.bundle(repo, tier, seed, ("L1", "L2", "L5", "L5d", "C05"), classes=["Pipeline", "PipelineStep", "PartialApplication", "Apply", "EvaluatableArgs", "EvaluatableKwargs", "EvaluatableArguments"], extra_vcs=vcs, bounded=False)
    b["syntactic"] += syn + syn2
    b["undecided"] += und + und2
    from harness import pipeline_search
    wit, n = pipeline_search.search(seed, 15 if tier == "quick" else 300)
    b["bounded"] = [{"what": "associativity / identity / iteration order / (p+q).transform = q.transform o p.transform / e >> p / keys+explain = union over steps, over all bracketings; "
                             "operand order and option-valued arguments of labrea.functions helpers",
                     "bounds": "step universe of 7 (decorated steps with option parameters, helpers, plain callable, empty pipeline), sequences of length <= 4, all bracketings, 4 dictionaries; 14 helpers x {constant, option} arguments",
                     "cases": n}]
    b["bounded_witnesses"] = [("Pipeline:algebra(bounded)", wit)] if wit else []

    def witness(group, names, seed, inner=b["witness"]):
        w, _ = pipeline_search.search(seed, 60)
        return w or inner(group, names, seed)
    b["witness"] = witness
    b["assumptions"] += ["proved: Pipeline.evaluate returns x -> tail(rest(x)) with every step evaluated under the same options; keys/explain/validate are the union over tail and rest "
                         "(interface laws for Pipeline, PipelineStep, PartialApplication); Apply gives e >> p = p(o)(e(o)); one-level structural cases of __add__",
                         "bounded only (labelled): associativity over all bracketings, identity, iteration order, recursion of __add__ over nested pipelines"]
    # ---- the helper steps of labrea.functions under contract (contracts/helpers_c13.py)
    from . import helpers_c13
    from .common import fn_hashes
    from harness import helper_search
    h_syn, h_und, drifted = helpers_c13.obligations(repo)
    h_wit = None
    if drifted:
        # a step function that is no longer literally its specification: compared with it on the typed value universe (bounded)
        h_wit, n_h = helper_search.search(names=drifted, limit_per_helper=40000)
        for name in drifted:
            if h_wit is not None and h_wit["case"]["helper"] == name:
                h_syn.append({"name": f"helpers:C13:{name}:computes-the-documented-operation", "ok": False, "detail": h_wit["message"][:200], "group": "helpers:C13"})
            else:
                h_und.append((f"functions.{name}", ["the step function is no longer literally the specified operation; the bounded differential check against the specification found no difference"]))
        b["bounded"].append({"what": "helpers whose step function has drifted from the literal specification: " + ", ".join(drifted), "bounds": "35-value pool for the input and each argument", "cases": n_h})
    elif tier != "quick":
        w2, n_h = helper_search.search(limit_per_helper=4000)
        b["bounded"].append({"what": "differential check of all helper steps against their specifications (validates the specification table, not counted as proof)", "bounds": "35-value pool for the input and each argument, <= 4000 cases per helper", "cases": n_h})
        if w2:
            b["bounded_witnesses"].append(("helpers:C13(bounded)", w2))
    b["syntactic"] += h_syn
    b["undecided"] += h_und
    fns = sorted(set(helpers_c13.SPEC) & set(repo.module("functions").functions))
    hf, hh = fn_hashes(repo, [f"labrea.functions:{n}" for n in fns])
    b["functions"] += hf
    b["hashes"].update(hh)
    b["group_hashes"]["helpers:C13"] = hh

    def witness2(group, names, seed, inner=b["witness"]):
        if group == "helpers:C13":
            return h_wit
        return inner(group, names, seed)
    b["witness"] = witness2
    b["assumptions"].append("helper steps (labrea.functions, 67 functions and constants): each step function, read off the constructor's AST (PipelineStep(partial(F, ..)) reduced to x -> F(.., x, ..)), "
                            "IS the documented Python operation of contracts/helpers_c13.py SPEC up to renaming (group helpers:C13); Python's operators and builtins are not modelled")
    from . import definition_time
    pl_syn, pl_und = definition_time.plumbing(repo)
    b["syntactic"] += pl_syn
    b["undecided"] += pl_und
    return b
