"""C13 - pipelines compose associatively; step parameters come from options and are keyed."""
from . import classlaws, pipeline_c13


def build(repo, tier, seed):
    vcs, syn, und = pipeline_c13.evaluate_spec(repo)
    syn2, und2 = pipeline_c13.add_cases(repo)
    b = classlaws.bundle(repo, tier, seed, ("L1", "L2", "L5", "L5d", "C05"), classes=["Pipeline", "PipelineStep", "PartialApplication", "Apply", "EvaluatableArgs", "EvaluatableKwargs", "EvaluatableArguments"], extra_vcs=vcs, bounded=False)
    b["syntactic"] += syn + syn2
    b["undecided"] += und + und2
    from harness import pipeline_search
    wit, n = pipeline_search.search(seed, 15 if tier == "quick" else 300)
    b["bounded"] = [{"what": "associativity / identity / iteration order / (p+q).transform = q.transform o p.transform / e >> p / keys+explain = union over steps, over all bracketings; "
                             "operand order and option-valued arguments of labrea.functions helpers",
                     "bounds": "step universe of 7 (decorated steps with option parameters, helpers, plain callable, empty pipeline), sequences of length <= 4, all bracketings, 4 dictionaries; 14 helpers x {constant, option} arguments",
                     "cases": n}]
    b["bounded_witnesses"] = [("Pipeline:algebra(bounded)", wit)] if wit else []

    def witness(group, names, seed, inner=b["witness"]):
        w, _ = pipeline_search.search(seed, 60)
        return w or inner(group, names, seed)
    b["witness"] = witness
    b["assumptions"] += ["proved: Pipeline.evaluate returns x -> tail(rest(x)) with every step evaluated under the same options; keys/explain/validate are the union over tail and rest "
                         "(interface laws for Pipeline, PipelineStep, PartialApplication); Apply gives e >> p = p(o)(e(o)); one-level structural cases of __add__",
                         "bounded only (labelled): associativity over all bracketings, identity, iteration order, recursion of __add__ over nested pipelines, the ~60 helper constructors of labrea.functions "
                         "(operators are plain Python there)"]
    from . import definition_time
    pl_syn, pl_und = definition_time.plumbing(repo)
    b["syntactic"] += pl_syn
    b["undecided"] += pl_und
    return b
