"""C14 - handler scoping."""
from __future__ import annotations

from . import runtime_c14
from .common import fn_hashes


def build(repo, tier, seed):
    vcs, undecided = runtime_c14.build(repo)
    fns = ["labrea.runtime:Runtime.__init__", "labrea.runtime:Runtime.handle", "labrea.runtime:Runtime.run",
           "labrea.runtime:Runtime.__enter__", "labrea.runtime:Runtime.__exit__", "labrea.runtime:current_runtime",
           "labrea.runtime:handle", "labrea.runtime:handle_by_default", "labrea.runtime:inherit", "labrea.runtime:Request.run"]
    functions, hashes = fn_hashes(repo, fns)

    def witness(group, names, seed):
        from harness import runtime_search
        return runtime_search.search(seed, budget=1500 if tier == "quick" else 20000)

    from .common import history_induction
    h_syn, h_und = history_induction()
    return {
        "vcs": vcs, "syntactic": h_syn, "undecided": undecided + h_und, "functions": functions, "hashes": hashes, "witness": witness,
        "level": "proof",
        "trusted_base": ["ghost stack/base model of `with` nesting (contracts/runtime_c14.py: rep)",
                         "dict get/setdefault/pop, list append/pop, attribute stores as modelled in pyvc/models.py"],
        "assumptions": ["history statement = Rep is an invariant of every operation (each a VC) + the run postcondition; "
                        "the induction over histories is the abstract lemma lean/Histories.lean (inv_of_reach / good_along_histories), checked by the Lean 4 kernel; that the VCs instantiate its hypotheses is by inspection",
                        "handlers are uninterpreted callables (call(h, req))"],
    }
