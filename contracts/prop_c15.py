"""C15 - threads: handler contexts are thread-local; concurrent register/evaluate safe (lock discipline + rely/guarantee)."""
from . import locks_c15, runtime_c14, cached_l7, overload_c07
from .common import fn_hashes


def build(repo, tier, seed):
    syn = locks_c15.obligations(repo)
    vcs, und = runtime_c14.build(repo)
    for vc in vcs:
        vc.name = vc.name.replace("Runtime:", "Runtime:atomic-section:")
        vc.meta = dict(vc.meta, law="C15." + vc.meta.get("law", "").split(".")[-1])
    v2, s2, u2 = cached_l7.build(repo, faulty=True, label="C15interference")
    s3, u3 = overload_c07.obligations(repo)
    syn += s2 + [x for x in s3 if x["name"].startswith("Overloaded.register")]
    import hashlib
    hashes = {"labrea/*.py": hashlib.sha256("".join(m.source for _, m in sorted(repo.modules.items())).encode()).hexdigest()[:16]}
    fns, _ = fn_hashes(repo, ["labrea.runtime:Runtime.__enter__", "labrea.runtime:Runtime.__exit__", "labrea.runtime:current_runtime", "labrea.runtime:inherit",
                              "labrea.runtime:handle_by_default", "labrea.overload:Overloaded.register", "labrea.overload:_get_lock", "labrea.cache:Cached.evaluate"])
    from harness import thread_search
    wit, n = thread_search.search(seed, 10 if tier == "quick" else 300)

    def witness(group, names, seed):
        if "Runtime" in group:
            from harness import runtime_search
            return thread_search.search(seed, 40)[0] or runtime_search.search(seed, 800)
        return thread_search.search(seed, 40)[0]
    return {"vcs": vcs + v2, "syntactic": syn, "undecided": und + u2 + u3, "functions": fns, "hashes": hashes, "level": "proof", "witness": witness,
            "bounded": [{"what": "deterministic schedules (operation granularity, Event hand-offs) of 2-3 threads: nested contexts incl. ONE runtime object shared by two threads, concurrent register, "
                                 "concurrent evaluate of one cached dataset, inherit", "bounds": "4 scenarios x random interleavings of 8+8 / 4+4+4 operations", "cases": n}],
            "bounded_witnesses": [("threads:C15(bounded)", wit)] if wit else [],
            "trusted_base": ["A-GIL: `with lock:` is mutual exclusion; a single dict get/set/setdefault/pop, {**d} and attribute stores are atomic; no free-threaded build",
                             "each critical section of runtime.py is a sequential atomic step: the C14 obligations (Rep preserved, thread-local frame: every other thread's slots untouched) "
                             "then hold per thread under every interleaving of sections"],
            "assumptions": ["rely/guarantee for the cache: between any two backend calls other threads may add entries; the obligations `Cached:C15interference` are proved for a backend whose "
                            "exists() is arbitrary and whose get() may miss at any call but returns only values stored for the same fingerprint (each thread's own guarantee, L7)",
                            "NOT decided: interleavings at bytecode granularity inside statements outside locks beyond the atomicity assumptions; fairness/liveness"]}
