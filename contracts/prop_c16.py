"""C16 - feature switches change side behaviour only, never values."""
from . import cached_l7, effects_c16, dataset_tower
from .common import fn_hashes


def build(repo, tier, seed):
    vcs, syn, und = cached_l7.build(repo, faulty=False, label="C16cache")
    v2, s2, u2 = effects_c16.computation(repo)
    v3, s3, u3 = effects_c16.logged(repo)
    t_syn, t_und = dataset_tower.tower_obligations(repo)
    from . import chained_effect, runtime_c14
    v4, u4 = chained_effect.build(repo)
    # the context-manager switches are runtimes DERIVED from the enclosing one: nested switches compose only because derive keeps the parent's handlers
    v5, u5 = runtime_c14.build(repo)
    v4 = v4 + [x for x in v5 if "derive" in x.name or "handle" in x.name or "run" in x.name]
    u4 = u4 + u5
    v2 = v2 + v4
    u2 = u2 + u4
    syn = syn + s2 + s3 + effects_c16.disabled_contexts(repo) + effects_c16.nocache(repo) + t_syn
    fns, hashes = fn_hashes(repo, ["labrea.cache:Cached.evaluate", "labrea.cache:_cache_disabled", "labrea.cache:_set_cache_handler", "labrea.cache:_get_cache_handler",
                                   "labrea.cache:_exists_cache_handler", "labrea.cache:disabled", "labrea.computation:Computation.evaluate", "labrea.computation:ChainedEffect.validate", "labrea.computation:ChainedEffect.transform", "labrea.computation:ChainedEffect.explain",
                                   "labrea.logging:Logged.evaluate", "labrea.logging:_builtin_logging_handler", "labrea.logging:disabled", "labrea.dataset:Dataset._composed"])
    import hashlib
    hashes["labrea/*.py"] = hashlib.sha256("".join(m.source for _, m in sorted(repo.modules.items())).encode()).hexdigest()[:16]

    def witness(group, names, seed):
        from harness import cache_search
        return cache_search.search(seed, faulty=False, switches=True, budget=400)
    # the option-based switches may be given as templates of other options; whether they then behave as their RESOLVED value is outside A-flags and is
    # checked on the real code on every run (bounded, labelled)
    from harness import cache_search as _cs
    bw = _cs.search(seed, faulty=False, switches=True, budget=120 if tier == "quick" else 1500)
    bounded = [{"what": "feature switches given literally or as templates of other options, and the context-manager variants, over histories of 1-4 evaluations: value unchanged, "
                        "backend untouched when caching is off, body re-run, effects off, exactly one log record per body run unless logging is off", "bounds": "120 (quick) / 1500 random histories",
                "cases": 120 if tier == "quick" else 1500}]
    return {"bounded": bounded, "bounded_witnesses": [("switches:C16(bounded)", bw)] if bw else [], "vcs": vcs + v2 + v3, "syntactic": syn, "undecided": und + u2 + u3 + t_und, "functions": fns, "hashes": hashes, "level": "proof", "witness": witness,
            "trusted_base": ["switch settings are symbolic inputs of the obligations (each LABREA.* flag an arbitrary value with symbolic truthiness), so the cross "
                             "product is covered without enumeration; per evaluation within a history because every obligation is one-step"],
            "assumptions": ["A-flags; the context-manager variants are decided by (a) the AST of cache.disabled()/logging.disabled() naming exactly the _disabled_* handlers and "
                            "(b) the bodies of those handlers; that Runtime.handle/enter serve them is C14",
                            "logging.getLogger(name).log(level,msg) emitting a record is assumed (dep.logging); the call event is what is proved",
                            "per-dataset toggle and nocache: Dataset._composed structure obligations (effects outside the tower when disabled; cache object passed through)"]}
