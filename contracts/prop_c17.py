"""C17 - an unreliable cache backend costs recomputation, never a wrong value or failure."""
from . import cached_l7
from .common import fn_hashes


def build(repo, tier, seed):
    vcs, syn, und = cached_l7.build(repo, faulty=True, label="C17")
    fns, hashes = fn_hashes(repo, ["labrea.cache:Cached.evaluate", "labrea.cache:_set_cache_handler", "labrea.cache:_get_cache_handler",
                                   "labrea.cache:_exists_cache_handler", "labrea.cache:_cache_disabled"])
    import hashlib
    hashes["labrea/cache.py"] = hashlib.sha256(repo.module("cache").source.encode()).hexdigest()[:16]

    def witness(group, names, seed):
        from harness import cache_search
        return cache_search.search(seed, faulty=True)
    from .common import history_induction
    h_syn, h_und = history_induction()
    syn = syn + h_syn
    und = und + h_und
    return {"vcs": vcs, "syntactic": syn, "undecided": und, "functions": fns, "hashes": hashes, "level": "proof", "witness": witness,
            "trusted_base": ["backend contract B-sound with exists() unconstrained (contracts/cache_model.py): the fault assignment (miss, forget, lie-exists, "
                             "fail-get, fail-read-back) is a symbolic oracle per call, so every assignment over histories of any length is covered by the one-step obligations"],
            "assumptions": ["the backend raises only CacheGetFailure from get and nothing from exists/set (the fault list of the statement)",
                            "values handed out by get were stored for the same fingerprint (INV): a backend returning a foreign value is outside the Cache contract"]}
