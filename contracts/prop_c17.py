"""C17 - an unreliable cache backend costs recomputation, never a wrong value or failure."""
from . import cached_l7
from .common import fn_hashes


def build(repo, tier, seed):
    vcs, syn, und = cached_l7.build(repo, faulty=True, label="C17")
    fns, hashes = fn_hashes(repo, ["labrea.cache:Cached.evaluate", "labrea.cache:_set_cache_handler", "labrea.cache:_get_cache_handler",
                                   "labrea.cache:_exists_cache_handler", "labrea.cache:_cache_disabled"])
    import hashlib
    hashes["labrea/cache.py"] = hashlib.sha256(repo.module("cache").source.encode()).hexdigest()[:16]

    def witness(group, names, seed):
        from harness import cache_search
        return cache_search.search(seed, faulty=True)
    from .common import history_induction
    h_syn, h_und = history_induction()
    syn = syn + h_syn
    und = und + h_und
    # a backend that lies in exists() lets Cached.validate pass for a dataset that cannot be evaluated; what keeps the outcome equal to the
    # memo-free one above a cached member is coalesce falling through on ANY failure of the chosen member: the C05 specification of Coalesce
    from . import classlaws
    rc = classlaws.run(repo, ("C05",), classes=["Coalesce"])
    extra_results = rc["results"]
    und = und + rc["undecided"]
    hashes.update(rc["hashes"])
    return {"results": extra_results, "group_hashes": rc["group_hashes"], "vcs": vcs, "syntactic": syn, "undecided": und, "functions": fns + rc["functions"], "hashes": hashes, "level": "proof", "witness": witness,
            "trusted_base": ["backend contract B-sound with exists() unconstrained (contracts/cache_model.py): the fault assignment (miss, forget, lie-exists, "
                             "fail-get, fail-read-back) is a symbolic oracle per call, so every assignment over histories of any length is covered by the one-step obligations"],
            "assumptions": ["the backend raises only CacheGetFailure from get and nothing from exists/set (the fault list of the statement)",
                            "values handed out by get were stored for the same fingerprint (INV): a backend returning a foreign value is outside the Cache contract"]}
