"""C18 - every core operation is an interceptable request; pass-through changes nothing."""
from . import routing_c18, classlaws


def build(repo, tier, seed):
    syn = routing_c18.obligations(repo) + routing_c18.call_alias_obligations(repo)
    s2, und = routing_c18.trace_obligations(repo)
    # members of a dataset class are evaluated by member.evaluate(options) - through the request wrapper - when it is instantiated (group DatasetClass:instance)
    from . import datasetclass_c19
    dc_vcs, dc_syn, dc_und = datasetclass_c19.build(repo)
    s2 = s2 + [x for x in dc_syn if "every-evaluatable-member" in x["name"]]
    und = und + dc_und
    import hashlib
    hashes = {"labrea/*.py": hashlib.sha256("".join(m.source for _, m in sorted(repo.modules.items())).encode()).hexdigest()[:16]}

    def witness(group, names, seed):
        from harness import routing_search
        return routing_search.search(seed)
    return {"vcs": [], "syntactic": syn + s2, "undecided": und, "functions": [{"name": "labrea/*.py (all ClassDefs enumerated from the AST)", "sha256_16": hashes["labrea/*.py"]}],
            "hashes": hashes, "level": "proof", "witness": witness,
            "trusted_base": ["structural (AST) obligations decided by the generator over the real source: hook shape, handler shape, class enumeration, routing (L12)",
                             "Python's __init_subclass__ protocol and MRO (the hooks chain through super())"],
            "assumptions": ["pass-through: Runtime.run calls the registered handler with the request and returns its result (C14); a handler delegating to the default therefore changes nothing",
                            "a substituting handler for one dataset is honoured wherever it is a dependency because dependencies are evaluated through the public wrapper (L12 obligation + class laws)",
                            "metaclass case: _DatasetClassMeta is itself a subclass of Evaluatable, so its methods are wrapped by the same hook (enumerated)"]}
