"""C19 - dataset classes: members are evaluations; equality follows relevant options."""
from . import classlaws


def build(repo, tier, seed):
    b = classlaws.bundle(repo, tier, seed, ("L1", "L2", "L5", "L6v", "L10"), classes=["_DatasetClassMeta"], bounded=False)
    from . import datasetclass_c19
    from .common import fn_hashes
    v1, syn1, und1 = datasetclass_c19.build(repo)
    b["vcs"] += v1
    b["syntactic"] += syn1
    b["undecided"] += und1
    fns, hs = fn_hashes(repo, ["labrea.datasetclass:_DatasetClassMixin.__init__", "labrea.datasetclass:_DatasetClassMixin.__eq__", "labrea.datasetclass:_DatasetClassMixin.__repr__"])
    b["functions"] += fns
    b["hashes"].update(hs)
    b["group_hashes"]["DatasetClass:instance"] = hs
    from harness import datasetclass_search
    wit, n = datasetclass_search.search(seed)
    b["bounded"] = [{"what": "instantiation sets every evaluatable member to its evaluation and every plain member to its constant (incl. inherited members, parent used before child and vice versa); "
                             "class keys/explain = union over members; == iff the options restricted to the class's keys (nested dotted keys included) are equal; repr shows those keys",
                     "bounds": "one parent/child pair of dataset classes (dataset, flat/dotted options, constants, inherited members), 8 x 8 option dictionaries, both usage orders", "cases": n}]
    b["bounded_witnesses"] = [("DatasetClass:C19(bounded)", wit)] if wit else []

    def witness(group, names, seed, inner=b["witness"]):
        w, _ = datasetclass_search.search(seed)
        return w or inner(group, names, seed)
    b["witness"] = witness
    b["assumptions"] += ["proved for the metaclass (_DatasetClassMeta) from its real keys/validate/explain bodies over dir(cls) (symbolic member table, any number of members): keys are "
                         "present-only and restriction-stable, explain covers keys and names missing options, inspection writes nothing (no caching of member lists on the class) and runs no body",
                         "proved for instances (group DatasetClass:instance): the real _DatasetClassMixin.__init__, for an instance of an arbitrary dataset class, replaces exactly the evaluatable non-dunder members by "
                         "their evaluation under the given options (events of every iteration), stores nothing else, leaves _repr_options = restrict(options, keys the class reports) - through the loop contract "
                         "contracts/loop_restrict.py (OptTheory.restrict.def) - and fails only as a member's evaluation or the class's keys() fails; __eq__ compares class and those restricted options, __repr__ shows them (AST obligations)",
                         "bounded only: inherited members / MRO order of dir() (dep.dir), the metaclass __init__ (annotation wrapping) and datasetclass()"]
    return b
