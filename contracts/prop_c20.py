"""C20 - datasets survive a pickle round trip (labrea-side obligations relative to an assumed contract of pickle)."""
from . import pickle_c20
from .common import fn_hashes


def build(repo, tier, seed):
    syn, und = pickle_c20.obligations(repo)
    fns, hashes = fn_hashes(repo, ["labrea.overload:Overloaded.__getstate__", "labrea.overload:Overloaded.__setstate__", "labrea.overload:_get_lock", "labrea.dataset:DatasetFactory.wrap"])
    import hashlib
    hashes["labrea/*.py"] = hashlib.sha256("".join(m.source for _, m in sorted(repo.modules.items())).encode()).hexdigest()[:16]
    from harness import pickle_search
    wit, n = pickle_search.search(seed, fresh=(tier == "thorough"))

    def witness(group, names, seed):
        return pickle_search.search(seed, fresh=False)[0]
    nd = sum(1 for s in syn if s["ok"])
    return {"vcs": [], "syntactic": syn, "undecided": und, "functions": fns, "hashes": hashes, "level": "other", "witness": witness,
            "bounded": [{"what": "explicit-form dataset graphs (overloads registered before pickling, pre-set and default options, callback, wrappers) round-tripped in-process under every "
                                 "pickle protocol (and into a fresh interpreter in the thorough tier): same values, failures and keys; unpickled datasets accept further registration",
                         "bounds": "3 graphs x protocols 2..5 x 6 dictionaries", "cases": n}],
            "bounded_witnesses": [("Dataset:C20(bounded)", wit)] if wit else [],
            "bounded_counts": {"evaluations": max(n, 1), "distinct_nontrivial": max(2, n), "rule": "one case = (graph, protocol, dictionary); all distinct"},
            "explanation": f"Relative to an ASSUMED contract of pickle (P-obj, P-fn): {nd} structural obligations on /repo are decided over the real source - the state round trip of "
                           "Overloaded restores dispatch/lookup/default and re-creates a real lock (symbolic run of __getstate__/__setstate__), every identity comparison of /repo is against a "
                           "pickle-stable singleton, no other class customises pickling - so an isomorphic copy has the same EV/VL/KS/EX because every spec function depends on an object only "
                           "through its fields. The pickle protocol itself, all protocol numbers and a fresh interpreter are NOT decided by proof; a bounded round-trip on the real code is run. "
                           "Decorator-form datasets cannot be pickled (recorded finding F17).",
            "trusted_base": ["assumed contract of pickle (P-obj, P-fn)"],
            "assumptions": ["level 'other': not a proof of the statement; the bounded round trip is labelled bounded"]}
