"""C18: every core operation is an interceptable request. Obligations over the real AST (enumeration by the verifier, not by
run-time reflection) plus trace obligations from the symbolic runs."""
from __future__ import annotations

import ast

from .laws import Runs, flat_events, unsupported

ABCS = {"Validatable": ("validate", "ValidateRequest", "validatable"), "Cacheable": ("keys", "KeysRequest", "cacheable"),
        "Explainable": ("explain", "ExplainRequest", "explainable"), "Evaluatable": ("evaluate", "EvaluateRequest", "evaluatable")}


def _norm(s):
    return "".join(s.split())


from .common import inline_lets as _inline_lets  # noqa: E402


def obligations(repo):
    out = []

    def ob(group, name, ok, detail=""):
        out.append({"name": f"{group}:{name}", "ok": bool(ok), "detail": str(detail)[:200], "group": group})

    types = repo.module("types")
    # (a) the four __init_subclass__ hooks install request-issuing wrappers
    for cname, (m, req, fieldname) in ABCS.items():
        ci = types.classes.get(cname)
        hook = ci.methods.get("__init_subclass__") if ci else None
        g = f"{cname}:C18hook"
        if hook is None:
            ob(g, "hook-exists", False)
            continue
        src = _norm(ast.unparse(hook))
        ob(g, "chains-to-super", "super().__init_subclass__(**kwargs)" in src)
        ob(g, "skips-already-wrapped", f"ifnothasattr(cls.{m},'__labrea_wrapper__')" in src)
        inner = [_inline_lets(n) for n in ast.walk(hook) if isinstance(n, ast.FunctionDef) and n.name == m]
        ok_inner = False
        if inner:
            body = [s for s in inner[0].body if not (isinstance(s, ast.Expr) and isinstance(s.value, ast.Constant))]
            want = f"return{req}(self,options).run()" if m != "explain" else f"return{req}(self,optionsor{{}}).run()"
            ok_inner = len(body) == 1 and _norm(ast.unparse(body[0])) == want
        ob(g, "wrapper-issues-the-request", ok_inner, ast.unparse(inner[0]) if inner else "")
        ob(g, "marks-wrapper", f"setattr({m},'__labrea_wrapper__',True)" in src)
        ob(g, "saves-implementation-then-installs-wrapper", f"cls.__labrea_{m}__=cls.{m}" in src and f"cls.{m}={m}" in src
           and src.index(f"cls.__labrea_{m}__=cls.{m}") < src.index(f"cls.{m}={m}"))
    # (b) default handlers call exactly the saved implementation with the request's options
    for cname, (m, req, fieldname) in ABCS.items():
        g = f"{req}:C18handler"
        hs = [fn for fn, decos in types.decorated if any(_norm(ast.unparse(d)) == f"{req}.handle" for d in decos)]
        ob(g, "one-default-handler", len(hs) == 1, [h.name for h in hs])
        if hs:
            hs = [_inline_lets(hs[0])]
            calls = [n for n in ast.walk(hs[0]) if isinstance(n, ast.Call) and isinstance(n.func, ast.Attribute) and n.func.attr.startswith("__labrea_")]
            ok = len(calls) == 1 and _norm(ast.unparse(calls[0])) == f"request.{fieldname}.__labrea_{m}__(request.options)"
            ob(g, "calls-the-saved-implementation-with-the-request-options", ok, [ast.unparse(c) for c in calls])
            rets = [n for n in ast.walk(hs[0]) if isinstance(n, ast.Return)]
            ob(g, "returns-its-result", any(r.value is not None and calls and ast.unparse(calls[0]) in ast.unparse(r.value) for r in rets))
    # (c) enumeration of every class reaching the ABCs
    for ci in repo.all_classes():
        if not (repo.is_subclass(ci, "Validatable") or repo.is_subclass(ci, "Cacheable") or repo.is_subclass(ci, "Explainable")):
            continue
        if ci.name in ABCS:
            continue
        g = f"{ci.name}:C18class"
        h = ci.methods.get("__init_subclass__")
        ob(g, "no-init_subclass-override-without-super", h is None or "super().__init_subclass__" in ast.unparse(h))
        bad = []
        for fn in ci.methods.values():
            for n in ast.walk(fn):
                if isinstance(n, ast.Assign):
                    for t in n.targets:
                        if isinstance(t, ast.Attribute) and t.attr in ("evaluate", "validate", "keys", "explain"):
                            bad.append(ast.unparse(n))
                if isinstance(n, ast.Call) and ast.unparse(n.func) == "setattr" and len(n.args) >= 2 and isinstance(n.args[1], ast.Constant) \
                        and n.args[1].value in ("evaluate", "validate", "keys", "explain"):
                    bad.append(ast.unparse(n))
        ob(g, "interface-methods-never-reassigned", not bad, bad[:1])
    for m in repo.modules.values():
        bad = []
        for st in m.tree.body:
            if isinstance(st, ast.Assign):
                for t in st.targets:
                    if isinstance(t, ast.Attribute) and t.attr in ("evaluate", "validate", "keys", "explain"):
                        bad.append(ast.unparse(st))
        ob(f"{m.name}:C18class", "no-module-level-reassignment-of-interface-methods", not bad, bad[:1])
    # (d)/(e) L12 routing: __labrea_* only in types.py; backend cache calls only in the cache handlers / Cache classes; log emission only in the log handler
    for m in repo.modules.values():
        g = f"{m.name}:L12"
        if m.name != "labrea.types":
            uses = [n for n in ast.walk(m.tree) if isinstance(n, ast.Attribute) and n.attr.startswith("__labrea_") and n.attr != "__labrea_wrapper__"]
            ob(g, "never-calls-saved-implementations-directly", not uses, [ast.unparse(u) for u in uses[:2]])
        # direct backend calls: <expr>.cache.get/set/exists(...) or self.get(...) inside Cache classes are the only allowed sites
        bad = []
        for node in ast.walk(m.tree):
            if isinstance(node, ast.FunctionDef):
                allowed = m.name == "labrea.cache" and (node.name.endswith("_cache_handler") or node.name in ("exists", "get", "set"))
                for n in ast.walk(node):
                    if isinstance(n, ast.Call) and isinstance(n.func, ast.Attribute) and n.func.attr in ("get", "set", "exists") \
                            and isinstance(n.func.value, ast.Attribute) and n.func.value.attr == "cache" and not allowed:
                        bad.append(f"{node.name}: {ast.unparse(n)}")
        ob(g, "cache-backend-reached-only-through-cache-requests", not bad, bad[:2])
        bad = []
        for node in ast.walk(m.tree):
            if isinstance(node, ast.FunctionDef):
                for n in ast.walk(node):
                    if isinstance(n, ast.Call) and _norm(ast.unparse(n.func)).startswith("logging.getLogger") and not (m.name == "labrea.logging" and node.name == "_builtin_logging_handler"):
                        bad.append(f"{node.name}: {ast.unparse(n)}")
        ob(g, "log-emission-only-in-the-log-request-handler", not bad, bad[:2])
    return out


def call_alias_obligations(repo):
    """F33: `child(options)` is NOT `child.evaluate(options)` when the child is a dataset class (calling a class instantiates it, no EvaluateRequest).
    Every evaluation of an Evaluatable-typed field inside labrea therefore uses .evaluate(); the only call-syntax uses left are on `self` itself
    (pipelines, never classes) and on CallbackEffect.callback (whose value must be a function, so it cannot be a dataset class)."""
    out = []
    allowed = {("CallbackEffect", "transform", "self.callback")}
    for m in repo.modules.values():
        for ci in m.classes.values():
            for name, fn in ci.methods.items():
                bad = []
                for n in ast.walk(fn):
                    if isinstance(n, ast.Call) and isinstance(n.func, ast.Attribute) and isinstance(n.func.value, ast.Name) and n.func.value.id == "self" \
                            and len(n.args) == 1 and isinstance(n.args[0], ast.Name) and n.args[0].id == "options" and not n.keywords:
                        fld = n.func.attr
                        ann = ci.annotations.get(fld) if hasattr(ci, "annotations") else None
                        is_ev_field = ann is not None and "Evaluatable" in ast.unparse(ann) and "Dict" not in ast.unparse(ann) and "List" not in ast.unparse(ann)
                        if is_ev_field and (ci.name, name, f"self.{fld}") not in allowed:
                            bad.append(ast.unparse(n))
                if bad or any(True for _ in ()):
                    pass
                out.append({"name": f"{ci.name}.{name}:C18call:children-evaluated-through-evaluate-not-call-syntax", "ok": not bad, "detail": "; ".join(bad)[:160],
                            "group": f"{ci.name}:C18call"})
    return out


def trace_obligations(repo):
    """Option.evaluate issues a TypeValidationRequest on every returning path; Cached/Logged issue their requests (trace)"""
    out, undecided = [], []

    def ob(group, name, ok, detail=""):
        out.append({"name": f"{group}:{name}", "ok": bool(ok), "detail": str(detail)[:200], "group": group})
    for C, meth, req, when in (("Option", "evaluate", "TypeValidationRequest", "ok"), ("Logged", "evaluate", "LogRequest", "ok")):
        ci = repo.find_class(C)
        R = Runs(repo, ci)
        ps = R.paths(meth, 1)
        if unsupported(ps):
            undecided.append((f"{C}.{meth}", sorted(set(unsupported(ps)))))
            continue
        for i, p in enumerate(ps):
            if p.kind != when:
                continue
            n = sum(1 for e in flat_events(p.trace) if e[0] == "req" and e[1] == req)
            ob(f"{C}:L12", f"{req}-issued-on-returning-path#{i}", n == 1, n)
    ci = repo.find_class("Cached")
    R = Runs(repo, ci)
    for meth in ("evaluate", "validate"):
        for i, p in enumerate(R.paths(meth, 1)):
            if p.kind == "unsupported":
                continue
            evs = list(flat_events(p.trace))
            # every backend event is preceded by a cache request of the matching kind
            okp = True
            pending = []
            for e in evs:
                if e[0] == "req" and e[1].startswith("Cache"):
                    pending.append(e[1])
                if e[0] == "cache":
                    want = {"get": "CacheGetRequest", "set": "CacheSetRequest", "exists": "CacheExistsRequest"}[e[1]]
                    if want not in pending and not (e[1] == "get" and "CacheSetRequest" in pending):
                        okp = False
            ob("Cached:L12", f"backend-only-inside-cache-requests:{meth}#{i}", okp)
    return out, undecided
