"""C14 (and the sequential half of C15): contracts on labrea/runtime.py.

Heap: RT = _RUNTIMES (thread -> runtime), PV = the per-thread restore stack, DEF = _DEFAULT_HANDLERS.
Ghost: glen(t), gst(t,i) = the runtimes whose `with` block thread t is inside (innermost last);
base(t) = what RT[t] was when the stack was last empty (py_None = absent).
Rep couples the concrete restore information to the ghost stack; every operation must preserve it.
"""
from __future__ import annotations

import ast

import z3

from pyvc import theory as T
from pyvc.values import *  # noqa
from pyvc.symex import explore
from pyvc.solve import VC

V, B, I = T.Val, T.B, T.I
AVB = z3.ArraySort(V, B)
AVV = z3.ArraySort(V, V)
AVI = z3.ArraySort(V, I)
AIV = z3.ArraySort(I, V)
AVAIV = z3.ArraySort(V, AIV)


class State:
    def __init__(self, tag):
        c = lambda n, s: z3.Const(f"{n}{tag}", s)
        self.RTp, self.RTv = c("RTp", AVB), c("RTv", AVV)
        self.PVp, self.PVlen, self.PVat = c("PVp", AVB), c("PVlen", AVI), c("PVat", AVAIV)
        self.DEFp, self.DEFv = c("DEFp", AVB), c("DEFv", AVV)
        self.glen, self.gst, self.base = c("glen", AVI), c("gst", AVAIV), c("base", AVV)

    def heap(self):
        return {"RT": (self.RTp, self.RTv), "PV": (self.PVp, self.PVlen, self.PVat), "DEF": (self.DEFp, self.DEFv)}


def rep(RT, PV, glen, gst, base):
    RTp, RTv = RT
    PVp, PVlen, PVat = PV
    t = z3.Const("t!rep", V)
    i = z3.Const("i!rep", I)
    isrt = lambda v: z3.And(v != T.NONE, T.isev(v))
    return z3.And(
        z3.ForAll([t], z3.And(
            glen[t] >= 0,
            z3.Implies(PVp[t], PVlen[t] == glen[t]),
            z3.Implies(z3.Not(PVp[t]), glen[t] == 0),
            z3.Implies(glen[t] == 0, z3.And(RTp[t] == (base[t] != T.NONE), z3.Implies(RTp[t], RTv[t] == base[t]))),
            z3.Implies(glen[t] > 0, z3.And(RTp[t], RTv[t] == gst[t][glen[t] - 1])),
            z3.Implies(RTp[t], isrt(RTv[t])),
            z3.Implies(base[t] != T.NONE, T.isev(base[t])),
        )),
        z3.ForAll([t, i], z3.Implies(z3.And(0 <= i, i < glen[t]),
                                     z3.And(PVat[t][i] == z3.If(i == 0, base[t], gst[t][i - 1]), isrt(gst[t][i])))),
    )


def frame_others(t0, before, after):
    """every other thread's slots are untouched (thread-local frame, C15)"""
    u = z3.Const("u!fr", V)
    eqs = []
    for a, b in zip(before, after):
        eqs.append(a[u] == b[u])
    return z3.ForAll([u], z3.Implies(u != t0, z3.And(*eqs)))


def find_prev_name(mod):
    cands = [n for n, v in mod.assigns.items() if isinstance(v, ast.Dict) and not v.keys and n not in ("_RUNTIMES", "_DEFAULT_HANDLERS")]
    return cands[0] if cands else None


def config_for(repo, st, t0):
    mod = repo.module("runtime")
    rtci = mod.classes["Runtime"]
    hmRT = HeapMap("RT", "val", "val")

    def wrap(ex, t):
        ex.narrow[str(t)] = rtci
        return Sym("val", t, rtci)
    hmRT.wrap = wrap
    g = {("labrea.runtime", "_RUNTIMES"): hmRT,
         ("labrea.runtime", "_DEFAULT_HANDLERS"): HeapMap("DEF", "val", "val"),
         ("labrea.runtime", "lock"): LockV("runtime.lock")}
    pn = find_prev_name(mod)
    if pn:
        g[("labrea.runtime", pn)] = HeapMap("PV", "val", "list")
    return {"globals": g, "heap": st.heap(), "thread": Sym("val", t0), "abstract_classes": ()}


def runtime_self(ex, repo, name="self"):
    ci = repo.module("runtime").classes["Runtime"]
    return Obj(ci, {}, z3.Const(name, T.Ev))


def paths_of(repo, st, t0, fn, tag):
    return explore(repo, fn, tag=tag, config=config_for(repo, st, t0))


def method(repo, cls, name):
    ci = repo.module("runtime").classes[cls]
    owner, m = repo.find_method(ci, name)
    return PyFunc(m, owner.module, owner=owner)


def no_none_access(ex, v):
    return v


def build(repo):
    vcs, undecided = [], []
    st = State("0")
    t0 = z3.Const("t0", V)
    SELF = z3.Const("self", T.Ev)
    selfv = T.val_of_ev(SELF)
    hyp = T.base_axioms() + [rep((st.RTp, st.RTv), (st.PVp, st.PVlen, st.PVat), st.glen, st.gst, st.base)]
    before = [st.RTp, st.RTv, st.PVp, st.PVlen, st.PVat]

    def after_of(p):
        RTp, RTv = p.heap["RT"]
        PVp, PVlen, PVat = p.heap["PV"]
        return [RTp, RTv, PVp, PVlen, PVat]

    def add(name, p, extra_hyp, goal, law):
        # frame: the handlers a runtime holds are fixed at construction - no operation stores into a field of an existing runtime
        # ("deriving never alters the runtime it derives from"; "served by the default registered ... whenever it was registered")
        wrote = [e for e in p.trace if e[0] == "store" and hasattr(e[1], "eq") and (e[1].eq(SELF) or str(e[1]).startswith("RTv"))]
        if wrote:
            goal = z3.And(goal, z3.BoolVal(False))
        vcs.append(VC(f"Runtime:{name}", hyp + extra_hyp + p.pc + p.defs, goal, {"law": law, "cls": "Runtime"}))

    def run(fn, tag, label):
        ps = paths_of(repo, st, t0, fn, tag)
        u = [p.value for p in ps if p.kind == "unsupported"]
        if u:
            undecided.append((label, sorted(set(u))))
            return None
        return ps

    # ---------------------------------------------------------------- __enter__
    def f_enter(ex):
        s = runtime_self(ex, repo)
        return ex.call(method(repo, "Runtime", "__enter__"), [s], {})
    ps = run(f_enter, "en", "Runtime.__enter__")
    for n, p in enumerate(ps or []):
        if p.kind != "ok":
            add(f"enter:noexc#{n}", p, [], z3.BoolVal(False), "C14.enter")
            continue
        a = after_of(p)
        glen2 = z3.Store(st.glen, t0, st.glen[t0] + 1)
        gst2 = z3.Store(st.gst, t0, z3.Store(st.gst[t0], st.glen[t0], selfv))
        ret_self = isinstance(p.value, Obj) and p.value.term.eq(SELF)
        goal = z3.And(rep((a[0], a[1]), (a[2], a[3], a[4]), glen2, gst2, st.base),
                      a[0][t0], a[1][t0] == selfv, frame_others(t0, before, a), z3.BoolVal(bool(ret_self)),
                      p.heap["DEF"][0] == st.DEFp, p.heap["DEF"][1] == st.DEFv)
        add(f"enter:rep#{n}", p, [], goal, "C14.enter")

    # ---------------------------------------------------------------- __exit__
    def f_exit(ex):
        s = runtime_self(ex, repo)
        a = [Sym("val", z3.Const(n, V)) for n in ("exc_type", "exc_value", "tb")]
        return ex.call(method(repo, "Runtime", "__exit__"), [s] + a, {})
    ps = run(f_exit, "ex", "Runtime.__exit__")
    pre = [st.glen[t0] > 0]
    for n, p in enumerate(ps or []):
        if p.kind != "ok":
            add(f"exit:noexc#{n}", p, pre, z3.BoolVal(False), "C14.exit")
            continue
        a = after_of(p)
        glen2 = z3.Store(st.glen, t0, st.glen[t0] - 1)
        prior_present = z3.If(st.glen[t0] > 1, z3.BoolVal(True), st.base[t0] != T.NONE)
        prior_val = z3.If(st.glen[t0] > 1, st.gst[t0][st.glen[t0] - 2], st.base[t0])
        falsy = z3.Not(ex_truthy(p.value))
        goal = z3.And(rep((a[0], a[1]), (a[2], a[3], a[4]), glen2, st.gst, st.base),
                      a[0][t0] == prior_present, z3.Implies(prior_present, a[1][t0] == prior_val),   # exactly the prior runtime
                      frame_others(t0, before, a), falsy,
                      p.heap["DEF"][0] == st.DEFp, p.heap["DEF"][1] == st.DEFv)
        add(f"exit:rep#{n}", p, pre, goal, "C14.exit")

    # ---------------------------------------------------------------- current_runtime
    mod = repo.module("runtime")

    def f_cur(ex):
        return ex.call(PyFunc(mod.functions["current_runtime"], mod), [], {})
    ps = run(f_cur, "cu", "current_runtime")
    for n, p in enumerate(ps or []):
        if p.kind != "ok":
            add(f"current:noexc#{n}", p, [], z3.BoolVal(False), "C14.current")
            continue
        a = after_of(p)
        r = p.value
        if isinstance(r, Obj):
            rv = T.val_of_ev(r.term)
            h = r.fields.get("handlers")
            empty = z3.BoolVal(False)
            if isinstance(h, PyDict) and not h.items:
                empty = z3.BoolVal(True)
            elif isinstance(h, ArrDict):
                tt = z3.Const("t!h", V)
                empty = z3.ForAll([tt], z3.Not(h.present[tt]))
        elif isinstance(r, Sym):
            rv, empty = r.term, z3.BoolVal(True)
        else:
            rv, empty = T.NONE, z3.BoolVal(False)
        base2 = z3.Store(st.base, t0, z3.If(st.RTp[t0], st.base[t0], rv))
        goal = z3.And(
            z3.Implies(st.RTp[t0], z3.And(rv == st.RTv[t0], a[0] == st.RTp, a[1] == st.RTv)),
            z3.Implies(z3.Not(st.RTp[t0]), z3.And(a[0][t0], a[1][t0] == rv, empty, rv != T.NONE, T.isev(rv))),
            rep((a[0], a[1]), (a[2], a[3], a[4]), st.glen, st.gst, base2),
            frame_others(t0, before, a), a[2] == st.PVp, a[3] == st.PVlen, a[4] == st.PVat)
        add(f"current:post#{n}", p, [], goal, "C14.current")

    # ---------------------------------------------------------------- Runtime.run
    REQ = z3.Const("req", V)
    typeof = z3.Function("typeof", V, V)

    def f_run(ex):
        s = runtime_self(ex, repo)
        return ex.call(method(repo, "Runtime", "run"), [s, Sym("val", REQ)], {})
    ps = run(f_run, "ru", "Runtime.run")
    hp = z3.Function("fld!Runtime.handlers#p", T.Ev, AVB)(SELF)
    hv = z3.Function("fld!Runtime.handlers#v", T.Ev, AVV)(SELF)
    ty = typeof(REQ)
    chosen_present = z3.Or(hp[ty], st.DEFp[ty])
    chosen = z3.If(hp[ty], hv[ty], st.DEFv[ty])
    argp = T.pack(T.mkseq(z3.IntVal(1), z3.Store(z3.K(I, T.DFLT), 0, REQ)), T.NOKW)
    for n, p in enumerate(ps or []):
        applies = [e for e in p.trace if e[0] == "apply"]
        if p.kind == "ok":
            ok_shape = len(applies) == 1
            goal = z3.And(chosen_present, z3.BoolVal(ok_shape))
            if ok_shape:
                goal = z3.And(goal, applies[0][1] == chosen, applies[0][2] == argp, p.value.term == T.call_val(chosen, argp))
        else:
            x = p.value
            if not applies:
                # no handler was applied: must be the TypeError of "no handler"
                is_te = isinstance(x, Obj) and x.builtin_cls == "TypeError"
                goal = z3.And(z3.Not(chosen_present), z3.BoolVal(bool(is_te)))
            else:
                # the handler itself raised: that exception propagates unchanged
                goal = z3.And(chosen_present, applies[0][1] == chosen, applies[0][2] == argp,
                              z3.BoolVal(isinstance(x, ExcSym)) if not isinstance(x, ExcSym) else x.term == T.call_exc(chosen, argp))
        a = after_of(p)
        goal = z3.And(goal, *[x == y for x, y in zip(a, before)], p.heap["DEF"][0] == st.DEFp, p.heap["DEF"][1] == st.DEFv)
        add(f"run:serve#{n}", p, [], goal, "C14.run")

    # ---------------------------------------------------------------- Runtime.handle (derive)
    RQ, HD = z3.Const("request", V), z3.Const("handler", V)
    mp, mv = z3.Const("reqmap#p", AVB), z3.Const("reqmap#v", AVV)
    for variant in ("mapping", "pair"):
        def f_handle(ex, variant=variant):
            s = runtime_self(ex, repo)
            if variant == "mapping":
                return ex.call(method(repo, "Runtime", "handle"), [s, ArrDict(mp, mv)], {})
            return ex.call(method(repo, "Runtime", "handle"), [s, Sym("val", RQ), Sym("val", HD)], {})
        ps = run(f_handle, "ha", f"Runtime.handle[{variant}]")
        for n, p in enumerate(ps or []):
            a = after_of(p)
            unchanged = z3.And(*[x == y for x, y in zip(a, before)], p.heap["DEF"][0] == st.DEFp, p.heap["DEF"][1] == st.DEFv,
                               z3.BoolVal(not any(e[0] == "store" and e[1].eq(SELF) for e in p.trace)))
            tt = z3.Const("t!h", V)
            if p.kind == "ok":
                r = p.value
                okobj = isinstance(r, Obj) and r.cls.name == "Runtime" and not r.term.eq(SELF) and isinstance(r.fields.get("handlers"), ArrDict)
                goal = z3.BoolVal(bool(okobj))
                if okobj:
                    h = r.fields["handlers"]
                    if variant == "mapping":
                        expp = lambda t_: z3.Or(mp[t_], hp[t_])
                        expv = lambda t_: z3.If(mp[t_], mv[t_], hv[t_])
                    else:
                        vp = z3.Function("valmap#p", V, AVB)(RQ)
                        vv = z3.Function("valmap#v", V, AVV)(RQ)
                        expp = lambda t_: z3.If(T.isdict(RQ), z3.Or(vp[t_], hp[t_]), z3.Or(t_ == RQ, hp[t_]))
                        expv = lambda t_: z3.If(T.isdict(RQ), z3.If(vp[t_], vv[t_], hv[t_]), z3.If(t_ == RQ, HD, hv[t_]))
                    goal = z3.ForAll([tt], z3.And(h.present[tt] == expp(tt), z3.Implies(h.present[tt], h.vals[tt] == expv(tt))))
                add(f"handle[{variant}]:derive#{n}", p, [], z3.And(goal, unchanged), "C14.derive")
            else:
                x = p.value
                is_te = isinstance(x, Obj) and x.builtin_cls == "TypeError"
                add(f"handle[{variant}]:typeerror#{n}", p, [], z3.And(z3.BoolVal(bool(is_te)), unchanged), "C14.derive")

    # ---------------------------------------------------------------- handle_by_default
    def f_hbd(ex):
        return ex.call(PyFunc(mod.functions["handle_by_default"], mod), [Sym("val", RQ), Sym("val", HD)], {})
    ps = run(f_hbd, "hd", "handle_by_default")
    for n, p in enumerate(ps or []):
        if p.kind != "ok":
            add(f"handle_by_default:noexc#{n}", p, [], z3.BoolVal(False), "C14.default")
            continue
        a = after_of(p)
        dp, dv = p.heap["DEF"]
        goal = z3.And(dp == z3.Store(st.DEFp, RQ, True), dv == z3.Store(st.DEFv, RQ, HD), *[x == y for x, y in zip(a, before)])
        add(f"handle_by_default:post#{n}", p, [], goal, "C14.default")

    # ---------------------------------------------------------------- inherit
    PARENT = z3.Const("parent", V)

    def f_inh(ex):
        return ex.call(PyFunc(mod.functions["inherit"], mod), [Sym("val", PARENT)], {})
    ps = run(f_inh, "in", "inherit")
    pre = [st.glen[t0] == 0]
    for n, p in enumerate(ps or []):
        if p.kind != "ok":
            add(f"inherit:noexc#{n}", p, pre, z3.BoolVal(False), "C15.inherit")
            continue
        a = after_of(p)
        base2 = z3.Store(st.base, t0, a[1][t0])
        goal = z3.And(a[0][t0], z3.Implies(st.RTp[PARENT], a[1][t0] == st.RTv[PARENT]),
                      z3.Implies(z3.Not(st.RTp[PARENT]), z3.And(a[1][t0] != T.NONE, T.isev(a[1][t0]))),
                      rep((a[0], a[1]), (a[2], a[3], a[4]), st.glen, st.gst, base2),
                      frame_others(t0, before, a), a[2] == st.PVp, a[3] == st.PVlen, a[4] == st.PVat)
        add(f"inherit:post#{n}", p, pre, goal, "C15.inherit")

    # ---------------------------------------------------------------- Request.run = current_runtime().run(self)
    def f_rr(ex):
        ci = mod.classes["Request"]
        s = Obj(ci, {}, z3.Const("reqobj", T.Ev))
        owner, m = repo.find_method(ci, "run")
        return ex.call(PyFunc(m, owner.module, owner=owner), [s], {})
    ps = run(f_rr, "rr", "Request.run")
    for n, p in enumerate(ps or []):
        # the request is served by the runtime current_runtime() returns: the trace shows exactly one heap read of RT at t0
        reads = [e for e in p.trace if e[0] == "heap-read" and e[1] == "RT"]
        good = len(reads) >= 1 and all(e[2].eq(t0) for e in reads)
        add(f"Request.run:routes#{n}", p, [], z3.BoolVal(bool(good)), "C14.route")
    return vcs, undecided


def ex_truthy(v):
    if v is None or v is False:
        return z3.BoolVal(False)
    if isinstance(v, Sym) and v.kind == "val":
        return T.truthy(v.term)
    if isinstance(v, Sym) and v.kind == "bool":
        return v.term
    return z3.BoolVal(True)
