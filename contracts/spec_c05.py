"""C05: refinement of every evaluate() against the eager computation named in the property statement.
The spec of each class is written from the statement (not from the code) as a predicate over one evaluate path:
spec_ok(value) for a returning path, spec_err for a failing one."""
from __future__ import annotations

import z3

from pyvc import theory as T
from pyvc.values import *  # noqa
from pyvc.solve import VC
from .laws import Runs, base_noregion, O1, SELF, pathcond, after_return, unsupported

I = T.I


def ev(cls, name):
    return z3.Function(f"fld!{cls}.{name}", T.Ev, T.Ev)(SELF)


def evv(cls, name):
    return z3.Function(f"fld!{cls}.{name}", T.Ev, T.Val)(SELF)


def seq(cls, name, suffix="#at"):
    n = z3.Function(f"fld!{cls}.{name}#n", T.Ev, I)(SELF)
    at = z3.Function(f"fld!{cls}.{name}{suffix}", T.Ev, I, T.Ev)
    return n, (lambda i: at(SELF, i))


def ok(e, o=O1):
    return T.EVok(e, o)


def val(e, o=O1):
    return T.EVval(e, o)


def args1(x):
    return T.pack(T.mkseq(z3.IntVal(1), z3.Store(z3.K(I, T.DFLT), 0, x)), T.NOKW)


def same_as(e, o=O1):
    """the class evaluates to exactly what e evaluates to under o"""
    return (lambda v: z3.And(ok(e, o), v == val(e, o))), z3.Not(ok(e, o))


def spec_apply():
    s, f = ev("Apply", "evaluatable"), ev("Apply", "func")
    a = args1(val(s))
    allok = z3.And(ok(s), ok(f), T.call_ok(val(f), a))
    return (lambda v: z3.And(allok, v == T.call_val(val(f), a))), z3.Not(allok)


def spec_bind():
    s, f = ev("Bind", "evaluatable"), evv("Bind", "func")
    a = args1(val(s))
    r = T.ev_of(T.call_val(f, a))
    allok = z3.And(ok(s), T.call_ok(f, a), ok(r))
    return (lambda v: z3.And(allok, v == val(r))), z3.Not(allok)


def spec_switch(cls):
    d = ev(cls, "dispatch")
    dflt = evv(cls, "default")
    hasf = z3.Function(f"fld!{cls}.lookup#has", T.Ev, T.Val, T.B)
    atf = z3.Function(f"fld!{cls}.lookup#at", T.Ev, T.Val, T.Ev)
    k = val(d)
    nodef = dflt == T.MISSING
    de = T.ev_of(dflt)
    use_default = z3.Or(z3.Not(ok(d)), z3.Not(hasf(SELF, k)))
    branch = atf(SELF, k)

    def okspec(v):
        return z3.If(use_default, z3.And(z3.Not(nodef), ok(de), v == val(de)), z3.And(ok(branch), v == val(branch)))
    errspec = z3.If(use_default, z3.Or(nodef, z3.Not(ok(de))), z3.Not(ok(branch)))
    return okspec, errspec


def spec_casewhen():
    d = ev("CaseWhen", "dispatch")
    dflt = evv("CaseWhen", "default")
    n = z3.Function("fld!CaseWhen.cases#n", T.Ev, I)(SELF)
    c0 = z3.Function("fld!CaseWhen.cases#at0", T.Ev, I, T.Ev)
    c1 = z3.Function("fld!CaseWhen.cases#at1", T.Ev, I, T.Ev)
    i, j = z3.Consts("i!cw j!cw", I)
    a = args1(val(d))
    cond = lambda x: c0(SELF, x)
    res = lambda x: c1(SELF, x)
    evaluable = lambda x: z3.And(ok(cond(x)), T.call_ok(val(cond(x)), a))
    holds = lambda x: z3.And(evaluable(x), T.truthy(T.call_val(val(cond(x)), a)))
    fails_before = lambda x: z3.ForAll([i], z3.Implies(z3.And(0 <= i, i < x), z3.And(evaluable(i), z3.Not(holds(i)))))
    de = T.ev_of(dflt)

    def okspec(v):
        first = z3.Exists([j], z3.And(0 <= j, j < n, holds(j), fails_before(j), ok(res(j)), v == val(res(j))))
        none = z3.And(fails_before(n), dflt != T.MISSING, ok(de), v == val(de))
        return z3.And(ok(d), z3.Or(first, none))
    # a failing evaluation: dispatch fails, or a consulted condition cannot be evaluated, or the chosen branch fails, or no branch and no default
    errspec = z3.Or(z3.Not(ok(d)),
                    z3.Exists([j], z3.And(0 <= j, j < n, fails_before(j), z3.Or(z3.Not(evaluable(j)), z3.And(holds(j), z3.Not(ok(res(j))))))),
                    z3.And(fails_before(n), z3.Or(dflt == T.MISSING, z3.Not(ok(de)))))
    return okspec, errspec


def spec_coalesce():
    n, m = seq("Coalesce", "members")
    i, j = z3.Consts("i!co j!co", I)
    can = lambda x: z3.And(T.VLok(m(x), O1), ok(m(x)))

    def okspec(v):
        return z3.Exists([j], z3.And(0 <= j, j < n, can(j), v == val(m(j)), z3.ForAll([i], z3.Implies(z3.And(0 <= i, i < j), z3.Not(can(i))))))
    errspec = z3.ForAll([i], z3.Implies(z3.And(0 <= i, i < n), z3.Not(can(i))))
    return okspec, errspec


def spec_seq(cls, field):
    """the forced content is the sequence of the children's values, in order"""
    n, c = seq(cls, field)
    i = z3.Const("i!sq", I)

    def okspec(v):
        arr = z3.Const("arr!sq", z3.ArraySort(I, T.Val))
        return z3.And(z3.ForAll([i], z3.Implies(z3.And(0 <= i, i < n), ok(c(i)))),
                      z3.Exists([arr], z3.And(v == T.mkseq(n, arr), z3.ForAll([i], z3.Implies(z3.And(0 <= i, i < n), arr[i] == val(c(i)))))))
    errspec = z3.Exists([i], z3.And(0 <= i, i < n, z3.Not(ok(c(i)))))
    return okspec, errspec


def spec_funapp(cls):
    f, a = ev(cls, "func"), ev(cls, "arguments")
    aa = z3.Function("attr!args", T.Val, T.Val)(val(a))
    kw = z3.Function("attr!kwargs", T.Val, T.Val)(val(a))
    p = T.pack(aa, kw)
    if cls == "FunctionApplication":
        allok = z3.And(ok(f), ok(a), T.call_ok(val(f), p))
        return (lambda v: z3.And(allok, v == T.call_val(val(f), p))), z3.Not(allok)
    allok = z3.And(ok(f), ok(a))
    return (lambda v: z3.And(allok, v == T.partial_of(val(f), p))), z3.Not(allok)


def spec_withoptions():
    c = ev("WithOptions", "evaluatable")
    force = z3.Function("fld!WithOptions.force", T.Ev, T.B)(SELF)
    P = z3.Function("fld!WithOptions.options", T.Ev, T.Opt)(SELF)
    m = z3.If(force, T.mix(O1, P), T.mix(P, O1))     # P wins when forced, the caller wins for defaults
    return same_as(c, m)


def spec_computation():
    """the body's value; fails iff the body fails or (effects being on) the effect fails"""
    c, e = ev("Computation", "evaluatable"), ev("Computation", "effect")
    return (lambda v: z3.And(ok(c), v == val(c))), z3.Or(z3.Not(ok(c)), z3.Not(T.TFok(e, val(c), O1)))


def _mk(cls, names):
    return z3.Function("mk_" + cls + "#" + ",".join(names), *([T.Val] * len(names)), T.Ev)


MK_WO = _mk("WithOptions", ("evaluatable", "force", "options"))
MK_CA = _mk("Cached", ("cache", "evaluatable"))
MK_LG = _mk("Logged", ("evaluatable", "level", "log_first", "msg", "name"))
MK_CO = _mk("Computation", ("effect", "evaluatable"))
MK_AP = _mk("Apply", ("evaluatable", "func"))


def tower_contracts():
    """class contracts of the temporaries Dataset._composed builds, each the C05 specification PROVED for that class (groups WithOptions:C05, Cached:C05,
    Logged:C05, Computation:C05, Apply:C05), restated for the mk_<Class>(fields) terms the executor uses for them"""
    c, f, P, x, y, z, w, g = z3.Consts("c!t f!t P!t x!t y!t z!t w!t g!t", T.Val)
    o = z3.Const("o!t", T.Opt)
    out = []

    def same(t, child, oo, vars_):
        return [z3.ForAll(vars_ + [o], z3.And(T.EVok(t, o) == T.EVok(child, oo), z3.Implies(T.EVok(t, o), T.EVval(t, o) == T.EVval(child, oo))), patterns=[T.EVok(t, o)]),
                z3.ForAll(vars_ + [o], z3.Implies(T.EVok(t, o), T.EVval(t, o) == T.EVval(child, oo)), patterns=[T.EVval(t, o)])]
    t = MK_WO(c, f, P)
    m = z3.If(f == T.TRUE, T.mix(o, T.opt_of_val(P)), T.mix(T.opt_of_val(P), o))
    out += same(t, T.ev_of(c), m, [c, f, P])
    out += same(MK_CA(x, c), T.ev_of(c), o, [x, c])
    out += same(MK_LG(c, x, y, z, w), T.ev_of(c), o, [c, x, y, z, w])
    # Computation: the body's value when it returns; it returns whenever the body does and the effect does not fail
    t = MK_CO(g, c)
    out.append(z3.ForAll([g, c, o], z3.And(z3.Implies(T.EVok(t, o), z3.And(T.EVok(T.ev_of(c), o), T.EVval(t, o) == T.EVval(T.ev_of(c), o))),
                                          z3.Implies(z3.And(T.EVok(T.ev_of(c), o), T.TFok(T.ev_of(g), T.EVval(T.ev_of(c), o), o)), T.EVok(t, o))), patterns=[T.EVok(t, o)]))
    # Apply
    t = MK_AP(c, f)
    a = args1(T.EVval(T.ev_of(c), o))
    fv = T.EVval(T.ev_of(f), o)
    allok = z3.And(T.EVok(T.ev_of(c), o), T.EVok(T.ev_of(f), o), T.call_ok(fv, a))
    out.append(z3.ForAll([c, f, o], z3.And(T.EVok(t, o) == allok, z3.Implies(allok, T.EVval(t, o) == T.call_val(fv, a))), patterns=[T.EVok(t, o)]))
    return out


def spec_dataset():
    """a dataset evaluates to callback(implementation) - both evaluated under the caller's options laid over the default options and overlaid by the
    pre-set options - whatever the cache holds (sound backend), with effects not changing the value (effects that do not fail: region F15)"""
    ovl, cb = ev("Dataset", "overloads"), ev("Dataset", "callback")
    D = z3.Function("fld!Dataset.default_options", T.Ev, T.Opt)(SELF)
    P = z3.Function("fld!Dataset.options", T.Ev, T.Opt)(SELF)
    oo = T.mix(T.mix(D, O1), P)
    a = args1(val(ovl, oo))
    allok = z3.And(ok(ovl, oo), ok(cb, oo), T.call_ok(val(cb, oo), a))
    return (lambda v: z3.And(allok, v == T.call_val(val(cb, oo), a))), z3.Not(allok)


def _effects_total():
    e = z3.Const("e!tot", T.Ev)
    v = z3.Const("v!tot", T.Val)
    o = z3.Const("o!tot", T.Opt)
    return [z3.ForAll([e, v, o], T.TFok(e, v, o), patterns=[T.TFok(e, v, o)])]


EXTRA_HYPS = {"Dataset": lambda: tower_contracts() + _effects_total()}

SPECS = {
    "Apply": spec_apply, "Bind": spec_bind, "Switch": lambda: spec_switch("Switch"), "Overloaded": lambda: spec_switch("Overloaded"),
    "CaseWhen": spec_casewhen, "Coalesce": spec_coalesce, "Iter": lambda: spec_seq("Iter", "evaluatables"),
    "EvaluatableArgs": lambda: spec_seq("EvaluatableArgs", "args"),
    "FunctionApplication": lambda: spec_funapp("FunctionApplication"), "PartialApplication": lambda: spec_funapp("PartialApplication"),
    "WithOptions": spec_withoptions, "Cached": lambda: same_as(ev("Cached", "evaluatable")),
    "Logged": lambda: same_as(ev("Logged", "evaluatable")), "PipelineStep": lambda: same_as(ev("PipelineStep", "step")),
    "Computation": spec_computation, "Dataset": spec_dataset,
}


def spec_vcs(repo, ci):
    C = ci.name
    if C not in SPECS:
        return [], []
    R = Runs(repo, ci)
    ps = R.paths("evaluate", 1)
    u = unsupported(ps)
    if u:
        return [], [(f"{C}.evaluate", sorted(set(u)))]
    okspec, errspec = SPECS[C]()
    hyp = base_noregion(ci) + (EXTRA_HYPS[C]() if C in EXTRA_HYPS else [])
    vcs = []
    for i, p in enumerate(ps):
        if p.kind == "ok":
            kind, t = p.value
            if kind == "none":
                goal = z3.BoolVal(False)
            else:
                goal = okspec(t if kind == "val" else T.val_of_kset(t))
        else:
            goal = errspec
        vcs.append(VC(f"{C}:C05:evaluate#{i}", hyp + p.pc + p.defs, goal, {"law": "C05", "cls": C}))
    return vcs, []
