"""C09: Template.evaluate refines str(resolve(template, mix(options, {':name:': value of parameter under the SAME options})));
a KeyError of the substitution becomes a KeyNotFoundError naming the key."""
from __future__ import annotations

import z3

from pyvc import theory as T
from pyvc.values import *  # noqa
from .laws import Runs, O1, SELF, flat_events, unsupported


def obligations(repo):
    out, und = [], []
    ci = repo.module("template").classes["Template"]
    R = Runs(repo, ci)
    ps = R.paths("evaluate", 1)
    if unsupported(ps):
        return [], [("Template.evaluate", sorted(set(unsupported(ps))))]

    def ob(name, ok, detail=""):
        out.append({"name": f"Template:C09:{name}", "ok": bool(ok), "detail": str(detail)[:200], "group": "Template:C09"})
    for i, p in enumerate(ps):
        evs = list(flat_events(p.trace))
        res = [e for e in evs if e[0] == "dep" and e[1] == "resolve"]
        pevals = [e for e in evs if e[0] == "call" and e[1] == "evaluate" and not e[2].eq(SELF)]
        ob(f"parameters-evaluated-under-the-same-options#{i}", all(str(e[3]) == "o" for e in pevals), [str(e[3]) for e in pevals][:2])
        param_failed = p.kind == "exc" and isinstance(p.value, (ExcSym, Obj)) and not res
        if param_failed:
            continue
        ob(f"substitution-performed-by-resolve-exactly-once#{i}", len(res) == 1, len(res))
        if not res:
            continue
        v, m = res[0][2], res[0][3]
        ob(f"resolves-the-template-text#{i}", str(v) == "fld!Template.template(self)", str(v))
        ob(f"against-options-overlaid-by-the-parameters#{i}", m.decl().name() == "mix" and str(m.arg(0)) == "o", str(m)[:80])
        # the overlay binds ':name:' to the escaped string form of each parameter's value (shape recognised by the engine: pdict)
        ob(f"parameters-bound-as-escaped-string-forms#{i}", m.decl().name() == "mix" and any(d.eq(T.pdict(m.arg(1))) for d in p.defs), str(m)[:80])
        if p.kind == "ok":
            k, t = p.value
            want = T.strform(T.resolve_val(v, m))
            ob(f"result-is-the-string-form-of-the-substitution#{i}", k == "val" and t.eq(want), str(t)[:120])
        else:
            x = p.value
            ok = isinstance(x, Obj) and x.clsname in ("KeyNotFoundError", "EvaluationError") or isinstance(x, ExcSym)
            if isinstance(x, Obj) and x.clsname == "KeyNotFoundError":
                kk = x.fields.get("key")
                ok = "exc_key(resolve_exc(" in str(getattr(kk, "term", kk)) or str(getattr(kk, "term", kk)) == "UNKNOWN" or "resolve_exc" in str(getattr(kk, "term", ""))
            ob(f"missing-reference-reported-with-its-key#{i}", ok, repr(x))
    # parameter binding: the mixed-in dictionary maps ':name:' to the parameter values (shape of the dict comprehension)
    return out, und
