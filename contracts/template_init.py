"""The class invariant of Template (laws.CLASS_INV['Template']) PROVED on the real Template.__init__: on every normally returning path every
':name:' placeholder of the text is bound by a parameter, `template` is the given text and every parameter value is an Evaluatable
(non-evaluatables are wrapped in Value); a text with an unbound placeholder raises ValueError."""
from __future__ import annotations

import z3

from pyvc import theory as T
from pyvc.values import *  # noqa
from pyvc.symex import explore, litkey_facts
from pyvc.solve import VC

T.assume("Enc.strkeys", "the sort Key is the set of Python strings used as keys: key_of_val inverts val_of_key on every string value (used by Template:init only)")
TPL = z3.Const("tpl", T.Val)
N = z3.Const("kw#n", T.I)
KF = z3.Function("kw#key", T.I, T.Val)
VF = z3.Function("kw#val", T.I, T.Val)
HASF = z3.Function("kw#has", T.Val, T.B)
ATF = z3.Function("kw#at", T.Val, T.Val)


def vcs(repo):
    ci = repo.module("template").classes["Template"]
    i, j = z3.Consts("i!m j!m", T.I)
    v = z3.Const("v!m", T.Val)
    k = z3.Const("k!g", T.Key)

    def run(ex):
        ex.define(T.isstr(TPL))
        ex.define(N >= 0)
        # **kwargs: an arbitrary mapping from distinct (A-py: identifier) names to arbitrary values
        ex.define(z3.ForAll([i], z3.Implies(z3.And(i >= 0, i < N), z3.And(HASF(KF(i)), ATF(KF(i)) == VF(i), T.isstr(KF(i)))), patterns=[KF(i)]))
        ex.define(z3.ForAll([v], z3.Implies(HASF(v), z3.Exists([i], z3.And(i >= 0, i < N, KF(i) == v))), patterns=[HASF(v)]))
        kw = MapV(N, lambda x: Sym("val", KF(x)), lambda x: Sym("val", VF(x)), has=lambda t: HASF(t), at=lambda t: Sym("val", ATF(t)))
        return ex.call(ClassRef(ci), [Sym("val", TPL)], {"**": kw})
    ps = explore(repo, run, tag="ti", config={"abstract_classes": ()})
    u = sorted({p.value for p in ps if p.kind == "unsupported"})
    if u:
        return [], [("Template.__init__", u)]
    w = z3.Const("w!ti", T.Val)
    # Key is the sort of strings used as keys: key_of_val inverts val_of_key on strings
    str_keys = [z3.ForAll([w], z3.Implies(T.isstr(w), T.val_of_key(T.key_of_val(w)) == w), patterns=[T.key_of_val(w)])]
    hyp = T.base_axioms() + T.template_axioms() + litkey_facts() + str_keys
    out = []
    m = {"law": "init", "cls": "Template"}
    unbound = z3.And(z3.IsMember(k, T.tkeys(TPL)), T.isparam(k), z3.Not(HASF(T.val_of_key(T.pname(k)))))
    for n, p in enumerate(ps):
        pre = hyp + p.pc + p.defs
        if p.kind == "ok":
            obj = p.value
            ok_shape = isinstance(obj, Obj) and obj.clsname == "Template" and isinstance(obj.fields.get("params"), MapV) and isinstance(obj.fields.get("template"), Sym)
            if not ok_shape:
                out.append(VC(f"Template:init:shape#{n}", pre, z3.BoolVal(False), m))
                continue
            pm = obj.fields["params"]
            key_i = pm.key(i).term
            val_i = pm.val(i)
            out.append(VC(f"Template:init:text-stored#{n}", pre, obj.fields["template"].term == TPL, m))
            out.append(VC(f"Template:init:every-placeholder-bound#{n}", pre,
                          z3.ForAll([k], z3.Implies(z3.And(z3.IsMember(k, T.tkeys(TPL)), T.isparam(k)),
                                                    z3.Exists([i], z3.And(i >= 0, i < pm.n, key_i == T.val_of_key(T.pname(k)))))), m))
            out.append(VC(f"Template:init:parameter-names-kept#{n}", pre, z3.And(pm.n == N, z3.ForAll([i], z3.Implies(z3.And(i >= 0, i < N), key_i == KF(i)))), m))
            vt = val_i.term if isinstance(val_i, Sym) else None
            out.append(VC(f"Template:init:parameter-values-are-evaluatables#{n}", pre,
                          z3.ForAll([i], z3.Implies(z3.And(i >= 0, i < N), z3.And(T.isev(vt), z3.Implies(T.isev(VF(i)), vt == VF(i))))) if vt is not None else z3.BoolVal(False), m))
            # normal return only when nothing is unbound
            out.append(VC(f"Template:init:returns-only-when-bound#{n}", pre, z3.Not(z3.Exists([k], unbound)), m))
        else:
            x = p.value
            isval = isinstance(x, Obj) and x.clsname == "ValueError"
            out.append(VC(f"Template:init:raises-only-ValueError-for-an-unbound-placeholder#{n}", pre, z3.Exists([k], unbound) if isval else z3.BoolVal(False), m))
    return out, []
