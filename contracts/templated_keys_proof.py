"""The contract of labrea.option._templated_keys (theory.tk_contract_axioms) PROVED against its real recursive body (recursive calls and the
Options built for referenced keys are used by contract = induction on evaluation depth, partial correctness), and the class contract of
default-less Options (laws.option_contract_facts) PROVED on the real Option.keys/explain.  Assumes only the structure of confectioner.resolve."""
from __future__ import annotations

import z3

from pyvc import theory as T
from pyvc.values import *  # noqa
from pyvc.solve import VC
from pyvc.symex import explore, litkey_facts
from .laws import FN_CONTRACTS, temp_contract, option_contract_facts, observe, pathcond, O1, O2, SELF

V = z3.Const("value", T.Val)
FN = ("labrea.option", "_templated_keys")


def runs(repo, o, explain, tag):
    om = repo.module("option")
    fn = om.functions["_templated_keys"]
    cfg = {"abstract_classes": ("Option",), "fn_contracts": FN_CONTRACTS, "verify_fn": FN, "temp_contract": temp_contract, "option_contract": [O1, O2]}

    def run(ex):
        k = z3.Const("k!np", T.Key)
        # A-noparam: option VALUES contain no ':name:' placeholders (those belong to Template(...) with parameters)
        ex.define(z3.ForAll([k], z3.Implies(z3.IsMember(k, T.tkeys(V)), z3.Not(T.isparam(k))), patterns=[z3.IsMember(k, T.tkeys(V))]))
        ex.pubstack.append(("<harness>", "<harness>"))
        r = ex.call(PyFunc(fn, om), [Sym("val", V), Sym("opt", o), explain], {})
        return observe(ex, r)
    return explore(repo, run, tag=tag, config=cfg)


def build(repo):
    vcs, und = [], []
    T.assume("A-noparam", "option values do not contain ':name:' parameter placeholders (Template(value) without parameters would reject them)")
    K1, X1 = runs(repo, O1, False, "tk1"), runs(repo, O1, True, "tx1")
    K2, X2 = runs(repo, O2, False, "tk2"), runs(repo, O2, True, "tx2")
    for name, ps in (("keys", K1), ("explain", X1)):
        u = sorted({p.value for p in ps if p.kind == "unsupported"})
        if u:
            und.append((f"_templated_keys[{name}]", u))
    if und:
        return [], und
    hyp = T.base_axioms() + T.resolve_structure_axioms() + T.child_laws() + litkey_facts()
    k = z3.Const("k!g", T.Key)
    g = {"law": "contract", "cls": "_templated_keys"}
    for i, p in enumerate(X1):
        vcs.append(VC(f"_templated_keys:explain-variant-never-raises#{i}", hyp + p.pc + p.defs, z3.BoolVal(p.kind == "ok"), g))
    for i, p in enumerate(X1):
        if p.kind == "ok":
            kx = T.exc_key(T.resolve_exc(V, O1))
            vcs.append(VC(f"_templated_keys:TX-miss-the-key-that-breaks-the-substitution-is-listed#{i}",
                          hyp + p.pc + p.defs + [z3.Not(T.resolve_ok(V, O1)), T.is_cls["KeyError"](T.resolve_exc(V, O1))], z3.IsMember(kx, p.value[1]), g))
    for i, p in enumerate(K1):
        pre = hyp + p.pc + p.defs
        if p.kind == "ok":
            R = p.value[1]
            vcs.append(VC(f"_templated_keys:TK1-present-only#{i}", pre, z3.ForAll([k], z3.Implies(z3.IsMember(k, R), T.has(O1, k))), g))
            vcs.append(VC(f"_templated_keys:TK4-keys-ok-implies-substitution-ok#{i}", pre, T.resolve_ok(V, O1), g))
            vcs.append(VC(f"_templated_keys:TK-RD-reads-reported#{i}", pre + [T.resolve_ok(V, O1)], z3.ForAll([k], z3.Implies(z3.IsMember(k, T.RD(V, O1)), z3.IsMember(k, R))), g))
            goal = z3.And(*[z3.Implies(pathcond(x), z3.And(z3.IsSubset(R, x.value[1]), z3.ForAll([k], z3.Implies(z3.IsMember(k, x.value[1]), T.has(O1, k))))) for x in X1 if x.kind == "ok"])
            vcs.append(VC(f"_templated_keys:explain-covers-keys-and-is-present#{i}", pre, goal, g))
            # TK2: stable under restriction
            rel = [T.sub(O2, O1), T.agreeP(O1, O2, R)]
            goal = z3.And(*[z3.Implies(pathcond(q), z3.And(z3.BoolVal(q.kind == "ok"), (q.value[1] == R) if q.kind == "ok" else z3.BoolVal(False))) for q in K2])
            vcs.append(VC(f"_templated_keys:TK2-restriction-stable#{i}", pre + rel, goal, g))
            for j, x1 in enumerate(X1):
                if x1.kind != "ok":
                    continue
                goal = z3.And(*[z3.Implies(pathcond(x2), (x2.value[1] == x1.value[1]) if x2.kind == "ok" else z3.BoolVal(False)) for x2 in X2])
                vcs.append(VC(f"_templated_keys:TK2-explain-variant-stable#{i}.{j}", pre + rel + x1.pc + x1.defs, goal, g))
        else:
            x = p.value.term
            base = z3.And(T.is_cls["KeyNotFoundError"](x), T.missing(x), z3.Not(T.has(O1, T.mkey(x))), z3.Not(T.resolve_ok(V, O1)))
            vcs.append(VC(f"_templated_keys:TK3-failure-shape#{i}", pre, base, g))
            goal = z3.And(*[z3.Implies(pathcond(xx), z3.IsMember(T.mkey(x), xx.value[1])) for xx in X1 if xx.kind == "ok"])
            vcs.append(VC(f"_templated_keys:TK3-missing-key-listed-by-explain#{i}", pre, goal, g))
    return vcs, und


def option_contract(repo):
    """Option.keys / Option.explain of an Option without default and domain satisfy laws.option_contract_facts"""
    vcs, und = [], []
    ci = repo.module("option").classes["Option"]
    cfg = {"abstract_classes": ("Template",), "fn_contracts": FN_CONTRACTS, "temp_contract": temp_contract}
    KEYT = T.key_of_val(z3.Function("fld!Option.key", T.Ev, T.Val)(SELF))
    hyp = T.base_axioms() + T.child_laws() + litkey_facts()
    gl = T.get(O1, KEYT)
    q = z3.Const("q!oc", T.Key)
    for meth in ("keys", "explain"):
        def run(ex, meth=meth):
            s = ex.sym_self(ci)
            s.fields["default"] = MISSING
            s.fields["domain"] = MISSING
            return observe(ex, ex.call_public(s, meth, [Sym("opt", O1)]))
        ps = explore(repo, run, tag="oc" + meth[0], config=cfg)
        u = sorted({p.value for p in ps if p.kind == "unsupported"})
        if u:
            und.append((f"Option.{meth}", u))
            continue
        for i, p in enumerate(ps):
            pre = hyp + p.pc + p.defs
            m = {"law": "contract", "cls": "Option"}
            if meth == "keys":
                if p.kind == "ok":
                    R = p.value[1]
                    goal = z3.And(T.has(O1, KEYT), T.TKok(gl, O1), z3.ForAll([q], z3.IsMember(q, R) == z3.Or(q == KEYT, z3.IsMember(q, T.TKset(gl, O1)))))
                else:
                    x = p.value.term
                    goal = z3.And(z3.Not(z3.And(T.has(O1, KEYT), T.TKok(gl, O1))),
                                  z3.Implies(z3.Not(T.has(O1, KEYT)), z3.And(T.is_cls["KeyNotFoundError"](x), T.missing(x), T.mkey(x) == KEYT)),
                                  z3.Implies(T.has(O1, KEYT), x == T.TKexc(gl, O1)))
                vcs.append(VC(f"Option:contract:keys#{i}", pre, goal, m))
            else:
                if p.kind != "ok":
                    vcs.append(VC(f"Option:contract:explain-never-raises#{i}", pre, z3.BoolVal(False), m))
                    continue
                X = p.value[1]
                goal = z3.ForAll([q], z3.IsMember(q, X) == z3.Or(q == KEYT, z3.And(T.has(O1, KEYT), z3.IsMember(q, T.TXset(gl, O1)))))
                vcs.append(VC(f"Option:contract:explain#{i}", pre, goal, m))
    # evaluate / validate of an Option without default, domain and declared type (laws.option_value_facts)
    from .laws import option_value_facts
    rx = T.resolve_exc(gl, O1)
    okc = z3.And(T.has(O1, KEYT), T.resolve_ok(gl, O1))
    for meth in ("evaluate", "validate"):
        def run(ex, meth=meth):
            s = ex.sym_self(ci)
            s.fields["default"] = MISSING
            s.fields["domain"] = MISSING
            return observe(ex, ex.call_public(s, meth, [Sym("opt", O1)]))
        ps = explore(repo, run, tag="oc" + meth[0], config=cfg)
        u = sorted({p.value for p in ps if p.kind == "unsupported"})
        if u:
            und.append((f"Option.{meth}", u))
            continue
        for i, p in enumerate(ps):
            pre = hyp + p.pc + p.defs
            m = {"law": "contract", "cls": "Option"}
            if p.kind == "ok":
                goal = okc if meth == "validate" else z3.And(okc, p.value[1] == T.resolve_val(gl, O1))
            else:
                x = p.value.term
                goal = z3.And(z3.Not(okc),
                              z3.Implies(z3.Not(T.has(O1, KEYT)), z3.And(T.is_cls["KeyNotFoundError"](x), T.missing(x), T.mkey(x) == KEYT, T.exc_key(x) == KEYT)),
                              z3.Implies(z3.And(T.has(O1, KEYT), T.is_cls["KeyError"](rx)),
                                         z3.And(T.is_cls["KeyNotFoundError"](x), T.missing(x), T.mkey(x) == T.exc_key(rx), T.exc_key(x) == T.exc_key(rx))),
                              z3.Implies(z3.And(T.has(O1, KEYT), z3.Not(T.is_cls["KeyError"](rx))), z3.And(z3.Not(T.missing(x)), z3.Not(T.is_cls["KeyNotFoundError"](x)))))
            vcs.append(VC(f"Option:contract:{meth}#{i}", pre, goal, m))
    return vcs, und
