"""Witness search for C16/C17: histories of evaluations of a small cached dataset with a scripted (faulty) backend and switch settings,
on the REAL code, compared with the memo-free value."""
from __future__ import annotations

import itertools
import random


def run_case(case):
    from labrea import dataset, Option
    import labrea.cache as lc
    import labrea.logging as ll
    from labrea.cache import Cache, CacheGetFailure
    script = list(case.get("faults", []))
    store = {}
    calls = {"body": 0, "effect": 0, "backend": 0}

    class Scripted(Cache):
        def _next(self):
            calls["backend"] += 1
            return script.pop(0) if script else "behave"

        def get(self, e, o):
            f = self._next()
            fp = e.fingerprint(o)
            if f in ("miss", "fail-get") or fp not in store:
                raise CacheGetFailure(e, o, self)
            return store[fp]

        def set(self, e, o, v):
            f = self._next()
            if f != "forget":
                store[e.fingerprint(o)] = v

        def exists(self, e, o):
            f = self._next()
            if f == "lie-exists":
                return True
            if f == "miss":
                return False
            return e.fingerprint(o) in store

    @dataset(cache=Scripted(), effects=[lambda v: calls.__setitem__("effect", calls["effect"] + 1)])
    def d(a=Option("A"), b=Option("B", 0)):
        calls["body"] += 1
        return (a, b)
    out = []
    for step in case["history"]:
        o = dict(step["options"])
        want = (o["A"], o.get("B", 0)) if "A" in o else "err"
        before = dict(calls)
        from confectioner.templating import resolve as _resolve
        try:
            flags = _resolve(o.get("LABREA", {}), o)       # a switch may be given as a template of another option: its RESOLVED value counts
        except Exception:  # noqa
            flags = {}
        cache_off = step.get("ctx") == "cache" or flags.get("CACHE", {}).get("DISABLED") or flags.get("CACHE", {}).get("DISABLE")
        log_off = bool(flags.get("LOGGING", {}).get("DISABLED")) or step.get("ctx") == "logging"
        try:
            if step.get("ctx") == "cache":
                with lc.disabled():
                    d.validate(o)
            else:
                d.validate(o)
        except Exception:  # noqa
            pass
        if cache_off and calls["backend"] != before["backend"]:
            out.append(f"caching disabled for {o} (ctx={step.get('ctx')}) but validate() reached the cache backend")
        before = dict(calls)
        import logging as _pl0
        recs0 = []

        class H0(_pl0.Handler):
            def emit(self, r):
                recs0.append(r)
        h0 = H0()
        lg0 = _pl0.getLogger()
        old0 = lg0.level
        lg0.addHandler(h0)
        lg0.setLevel(_pl0.DEBUG)
        try:
            if step.get("ctx") == "cache":
                with lc.disabled():
                    got = d(o)
            elif step.get("ctx") == "logging":
                with ll.disabled():
                    got = d(o)
            else:
                got = d(o)
        except Exception as e:  # noqa
            got = "err"
        finally:
            lg0.removeHandler(h0)
            lg0.setLevel(old0)
        ran = calls["body"] - before["body"]
        if "A" in o and len(recs0) != (0 if log_off else ran):
            out.append(f"evaluation of {o} (ctx={step.get('ctx')}): body ran {ran} time(s), logging {'off' if log_off else 'on'}, but {len(recs0)} log record(s) were emitted")
        if got != want:
            out.append(f"evaluation of {o} (ctx={step.get('ctx')}) returned {got!r}, expected {want!r}")
        if cache_off and calls["backend"] != before["backend"]:
            out.append(f"caching disabled for {o} (ctx={step.get('ctx')}) but evaluate() reached the cache backend")
        if cache_off and "A" in o and calls["body"] != before["body"] + 1:
            out.append(f"caching disabled for {o} but the body did not run")
        eff_off = flags.get("EFFECTS", {}).get("DISABLED")
        if eff_off and calls["effect"] != before["effect"]:
            out.append(f"effects disabled for {o} but an effect ran")
        if step.get("ctx") == "cache":
            # nested inside logging.disabled(): the cache-disabled context must keep the enclosing handlers (derived with handle())
            import logging as _pl
            records = []

            class H(_pl.Handler):
                def emit(self, r):
                    records.append(r)
            h = H()
            lg = _pl.getLogger()
            old = lg.level
            lg.addHandler(h); lg.setLevel(_pl.DEBUG)
            try:
                with ll.disabled():
                    with lc.disabled():
                        try:
                            d(o)
                        except Exception:  # noqa
                            pass
            finally:
                lg.removeHandler(h); lg.setLevel(old)
            if records:
                out.append(f"logging.disabled() outside cache.disabled(): {len(records)} log records were emitted")
    return out


def replay(case):
    msgs = memo_case() if case.get("memo") else run_case(case)
    return bool(msgs), f"case={case}\n" + ("\n".join(msgs) or "holds")


def memo_case():
    """C02: bodies returning falsy values (None included) run once per relevant assignment; a shared dependency runs once"""
    from labrea import dataset, Option
    msgs = []
    for ret in (None, 0, "", [], False, 5):
        runs = {"n": 0, "eff": 0}

        @dataset(effects=[lambda v: runs.__setitem__("eff", runs["eff"] + 1)])
        def leaf(a=Option("A")):
            runs["n"] += 1
            return ret

        @dataset
        def left(x=leaf):
            return ("l", x)

        @dataset
        def right(x=leaf):
            return ("r", x)

        @dataset.nocache
        def top(l=left, r=right):
            return (l, r)
        top({"A": 1})
        if runs["n"] != 1:
            msgs.append(f"body returning {ret!r}: shared dependency ran {runs['n']} times within one evaluation")
        top({"A": 1, "UNUSED": 3})
        leaf({"A": 1})
        if runs["n"] != 1 or runs["eff"] != 1:
            msgs.append(f"body returning {ret!r}: ran {runs['n']} times / effect {runs['eff']} times over repeats with the same relevant options")
    # options fixed by pre-set values (scalar, list or None) do not split cache entries of a consumer
    for preset in (2, [1, 2], None, "x"):
        runs = {"n": 0}

        @dataset(options={"P": preset})
        def pinned(p=Option("P"), a=Option("A")):
            return (p, a)

        @dataset
        def report(x=pinned):
            runs["n"] += 1
            return x
        report({"A": 1})
        report({"A": 1, "P": "caller-1"})
        report({"A": 1, "P": ["caller-2"]})
        if runs["n"] != 1:
            msgs.append(f"consumer of a dataset with pre-set P={preset!r} ran {runs['n']} times although only the overridden option P changed")
    # C02/C07: one implementation overloaded under several aliases is ONE dataset: reached through two aliases with the same relevant options it runs once
    runs = {"n": 0, "eff": 0}

    @dataset(dispatch="MODE")
    def base(a=Option("A")):
        return ("base", a)

    @base.overload(["x", "y"])
    def impl(a=Option("A")):
        runs["n"] += 1
        return ("impl", a)
    impl.add_effects(lambda v: runs.__setitem__("eff", runs["eff"] + 1)) if hasattr(impl, "add_effects") else None
    base({"MODE": "x", "A": 1})
    base({"MODE": "y", "A": 1})
    if runs["n"] != 1:
        msgs.append(f"an implementation overloaded under ['x', 'y'] ran {runs['n']} times for MODE=x then MODE=y with the same relevant options")
    # C02: an overload made from a bare function is a dataset like any other (memoised per relevant assignment), whatever the parent's own cache setting
    for parent_kind in ("nocache", "cached"):
        runs2 = {"n": 0}
        deco = dataset.nocache if parent_kind == "nocache" else dataset

        @deco(dispatch="MODE")
        def base2(a=Option("A")):
            return ("base", a)

        @base2.overload("x")
        def impl2(a=Option("A")):
            runs2["n"] += 1
            return ("impl", a)
        base2({"MODE": "x", "A": 1})
        base2({"A": 1, "MODE": "x", "UNUSED": 3})
        impl2({"A": 1})
        if runs2["n"] != 1:
            msgs.append(f"an overload (bare function) of a {parent_kind} parent ran {runs2['n']} times for one relevant assignment (twice through the parent, once directly)")
    # C01: the caller's own dictionary changed IN PLACE between two evaluations of one long-lived cached node / dataset
    from labrea import cached
    for make in (lambda: cached(Option("N") >> (lambda n: n * n)), lambda: dataset(lambda n=Option("N"): n * n)):
        node = make()
        live = {"N": 10, "RUN": {"NAME": "x"}}
        got = []
        for n in (10, 11, 12, 11):
            live["N"] = n
            got.append(node(live))
        if got != [100, 121, 144, 121]:
            msgs.append(f"one dictionary object mutated in place (N = 10, 11, 12, 11) gives {got}, uncached evaluation gives [100, 121, 144, 121]")
    return msgs


def search(seed=0, faulty=True, switches=False, budget=400, memo=False):
    if memo:
        m = memo_case()
        if m:
            return {"module": "harness.cache_search", "case": {"memo": True}}
    rnd = random.Random(seed)
    faults = ["behave", "miss", "forget", "lie-exists", "fail-get"] if faulty else ["behave"]
    flags = [{}, {"LABREA": {"CACHE": {"DISABLED": True}}}, {"LABREA": {"CACHE": {"DISABLE": True}}}, {"LABREA": {"EFFECTS": {"DISABLED": True}}},
             {"LABREA": {"LOGGING": {"DISABLED": True}}}, {"LABREA": {"LOGGING": {"DISABLED": "{QUIET}"}}, "QUIET": False}, {"LABREA": {"CACHE": {"DISABLED": "{NOCACHE}"}}, "NOCACHE": 0},
             {"LABREA": {"EFFECTS": {"DISABLED": "{NOEFF}"}}, "NOEFF": False}, {"LABREA": {"LOGGING": {"DISABLED": "{QUIET}"}}, "QUIET": True}] if switches else [{}]
    ctxs = [None, "cache", "logging"] if switches else [None]
    for _ in range(budget):
        hist = []
        for _ in range(rnd.randint(1, 4)):
            o = {"A": rnd.choice([1, 2])}
            if rnd.random() < 0.4:
                o["B"] = rnd.choice([0, 5])
            o.update(rnd.choice(flags))
            hist.append({"options": o, "ctx": rnd.choice(ctxs)})
        case = {"history": hist, "faults": [rnd.choice(faults) for _ in range(rnd.randint(0, 10))]}
        if run_case(case):
            return {"module": "harness.cache_search", "case": case}
    return None
