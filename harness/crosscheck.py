"""CPython cross-check of the symbolic executor (DESIGN 6.4).

For a class C and a concrete scenario (table-driven stub children, a concrete dictionary) the REAL method is run natively; the same
scenario is asserted as ground facts about the spec functions (EVok/EVval/KSok/KSset/...) and z3 is asked which symbolic path of
the engine is consistent with it.  Exactly the consistent paths must predict the native outcome (ok with the same sentinel value /
key set, or failure).  A mismatch is an ENGINE bug: every verdict of that function becomes undecided.
"""
from __future__ import annotations

import itertools
import random

import z3

from pyvc import theory as T
from pyvc.extract import Repo
from contracts.laws import Runs, O1, SELF, base_noregion

KEYS = ["A", "B", "C"]


def make_stub_class():
    from labrea.types import Evaluatable
    from labrea.exceptions import EvaluationError, KeyNotFoundError, InsufficientInformationError

    class Stub(Evaluatable):
        """obeys the interface contract by construction for the ONE dictionary it is used with"""

        def __init__(self, name, table):
            self.name, self.table = name, table

        def evaluate(self, options):
            r = self.table["evaluate"]
            if r[0] == "ok":
                return r[1]
            raise KeyNotFoundError(r[1], self) if r[0] == "missing" else EvaluationError("stub", self)

        def validate(self, options):
            r = self.table["validate"]
            if r[0] != "ok":
                raise KeyNotFoundError(r[1], self) if r[0] == "missing" else EvaluationError("stub", self)

        def keys(self, options):
            r = self.table["keys"]
            if r[0] == "ok":
                return set(r[1])
            raise KeyNotFoundError(r[1], self)

        def explain(self, options=None):
            r = self.table["explain"]
            if r[0] == "ok":
                return set(r[1])
            raise InsufficientInformationError("stub", self)

        def __repr__(self):
            return f"Stub({self.name})"
    return Stub


def random_table(rnd, name, o):
    """a table consistent with the interface laws for dictionary o (L1, L3, L4a, L5...)"""
    present = [k for k in KEYS if k in o]
    absent = [k for k in KEYS if k not in o]
    mode = rnd.choice(["ok", "ok", "missing", "fail"])
    ks = rnd.sample(present, rnd.randint(0, len(present)))
    if mode == "ok":
        return {"evaluate": ("ok", f"val-{name}"), "validate": ("ok",), "keys": ("ok", ks), "explain": ("ok", ks)}
    if mode == "missing" and absent:
        k = rnd.choice(absent)
        return {"evaluate": ("missing", k), "validate": ("missing", k), "keys": ("missing", k), "explain": ("ok", ks + [k])}
    return {"evaluate": ("fail",), "validate": ("ok",), "keys": ("ok", ks), "explain": ("ok", ks)}


def facts_for(child_term, table, o_term, vals, keyconst):
    f = []
    ev, vl, ks, ex = table["evaluate"], table["validate"], table["keys"], table["explain"]
    f.append(T.EVok(child_term, o_term) == (ev[0] == "ok"))
    if ev[0] == "ok":
        f.append(T.EVval(child_term, o_term) == vals[ev[1]])
    else:
        x = T.EVexc(child_term, o_term)
        f += [T.missing(x) == (ev[0] == "missing"), T.is_cls["EvaluationError"](x), T.is_cls["Exception"](x), T.exc_src(x) == child_term,
              T.is_cls["KeyNotFoundError"](x) == (ev[0] == "missing"), z3.Not(T.is_cls["KeyError"](x)), z3.Not(T.is_cls["CacheFailure"](x))]
    for fn_ok, fn_exc in ((T.VLok, T.VLexc), (T.KSok, T.KSexc), (T.EXok, T.EXexc)):
        y = fn_exc(child_term, o_term)
        f += [T.is_cls["EvaluationError"](y), T.is_cls["Exception"](y), z3.Not(T.is_cls["KeyError"](y))]
    f.append(T.VLok(child_term, o_term) == (vl[0] == "ok"))
    f.append(T.KSok(child_term, o_term) == (ks[0] == "ok"))
    if ks[0] == "ok":
        S = z3.EmptySet(T.Key)
        for k in ks[1]:
            S = z3.SetAdd(S, keyconst[k])
        f.append(T.KSset(child_term, o_term) == S)
    f.append(T.EXok(child_term, o_term) == (ex[0] == "ok"))
    if ex[0] == "ok":
        S = z3.EmptySet(T.Key)
        for k in ex[1]:
            S = z3.SetAdd(S, keyconst[k])
        f.append(T.EXset(child_term, o_term) == S)
    return f


# how to build a real instance + the matching facts, per class
def scenario(cname, rnd, Stub):
    from labrea._missing import MISSING
    o = {k: 1 for k in rnd.sample(KEYS, rnd.randint(0, len(KEYS)))}
    keyconst = {k: z3.Const("key!" + k, T.Key) for k in KEYS}
    names = ["c0", "c1", "c2"]
    tables = {n: random_table(rnd, n, o) for n in names}
    stubs = {n: Stub(n, tables[n]) for n in names}
    vals = {f"val-{n}": z3.Const(f"cv!{n}", T.Val) for n in names}
    cterm = {n: z3.Const(f"cc!{n}", T.Ev) for n in names}
    facts = [z3.Distinct(*cterm.values(), SELF), z3.Distinct(*vals.values()), z3.Distinct(*keyconst.values())]
    for k in KEYS:
        facts.append(T.has(O1, keyconst[k]) == (k in o))
    for n in names:
        facts += facts_for(cterm[n], tables[n], O1, vals, keyconst)

    def fld(cls, name, sort=T.Ev):
        return z3.Function(f"fld!{cls}.{name}", T.Ev, sort)(SELF)

    def seq(cls, name, items):
        nf = z3.Function(f"fld!{cls}.{name}#n", T.Ev, T.I)(SELF)
        at = z3.Function(f"fld!{cls}.{name}#at", T.Ev, T.I, T.Ev)
        return [nf == len(items)] + [at(SELF, i) == cterm[x] for i, x in enumerate(items)]
    if cname in ("Logged", "PipelineStep", "_DependsOnX"):
        from labrea.logging import Logged
        from labrea.pipeline import PipelineStep
        if cname == "Logged":
            inst = Logged(stubs["c0"], 20, "n", "m")
            facts += [fld("Logged", "evaluatable") == cterm["c0"], z3.Function("fld!Logged.log_first", T.Ev, T.B)(SELF)]
        else:
            inst = PipelineStep(stubs["c0"])
            facts += [fld("PipelineStep", "step") == cterm["c0"]]
        return inst, o, facts, vals
    if cname == "Iter":
        from labrea import Iter
        k = rnd.randint(0, 3)
        items = names[:k]
        inst = Iter(*[stubs[n] for n in items])
        facts += seq("Iter", "evaluatables", items)
        return inst, o, facts, vals
    if cname == "EvaluatableArgs":
        from labrea.arguments import EvaluatableArgs
        k = rnd.randint(0, 3)
        items = names[:k]
        inst = EvaluatableArgs(*[stubs[n] for n in items])
        facts += seq("EvaluatableArgs", "args", items)
        return inst, o, facts, vals
    if cname == "Coalesce":
        from labrea import Coalesce
        k = rnd.randint(1, 3)
        items = names[:k]
        inst = Coalesce(*[stubs[n] for n in items])
        facts += seq("Coalesce", "members", items)
        return inst, o, facts, vals
    if cname in ("Switch", "Overloaded"):
        from labrea import switch
        from labrea.overload import Overloaded
        with_default = rnd.random() < 0.6
        # dispatch = c0 (its value is the sentinel 'val-c0'); lookup maps that sentinel (or another key) to c1
        hit = rnd.random() < 0.5
        lk = {("val-c0" if hit else "other"): stubs["c1"]}
        if cname == "Switch":
            inst = switch(stubs["c0"], lk, stubs["c2"]) if with_default else switch(stubs["c0"], lk)
        else:
            inst = Overloaded(stubs["c0"], lk, stubs["c2"]) if with_default else Overloaded(stubs["c0"], lk)
        facts.append(fld(cname, "dispatch") == cterm["c0"])
        dv = z3.Function(f"fld!{cname}.default", T.Ev, T.Val)(SELF)
        facts.append(dv == (T.val_of_ev(cterm["c2"]) if with_default else T.MISSING))
        hasf = z3.Function(f"fld!{cname}.lookup#has", T.Ev, T.Val, T.B)
        atf = z3.Function(f"fld!{cname}.lookup#at", T.Ev, T.Val, T.Ev)
        nf = z3.Function(f"fld!{cname}.lookup#n", T.Ev, T.I)(SELF)
        kf = z3.Function(f"fld!{cname}.lookup#key", T.Ev, T.I, T.Val)
        vf = z3.Function(f"fld!{cname}.lookup#val", T.Ev, T.I, T.Ev)
        other = z3.Const("cv!otherkey", T.Val)
        keyv = vals["val-c0"] if hit else other
        v = z3.Const("v!cc", T.Val)
        facts += [nf == 1, kf(SELF, 0) == keyv, vf(SELF, 0) == cterm["c1"], z3.ForAll([v], hasf(SELF, v) == (v == keyv)), atf(SELF, keyv) == cterm["c1"],
                  z3.Distinct(other, *vals.values())]
        return inst, o, facts, vals
    class Fn:
        """a user callable with one fixed behaviour: returns `ret` or raises"""
        def __init__(self, name, ret, raises=False):
            self.name, self.ret, self.raises = name, ret, raises

        def __call__(self, *a, **k):
            if self.raises:
                raise RuntimeError(self.name)
            return self.ret

        def __repr__(self):
            return f"Fn({self.name})"

    def fn_facts(fv, f, retv):
        a = z3.Const("a!cc", T.Val)
        x = T.call_exc(fv, a)
        out = [z3.ForAll([a], T.call_ok(fv, a) == (not f.raises)), T.iscallable(fv), z3.Not(T.isev(fv))]
        if f.raises:
            out.append(z3.ForAll([a], z3.And(T.is_cls["Exception"](x), z3.Not(T.is_cls["EvaluationError"](x)), z3.Not(T.is_cls["KeyError"](x)), z3.Not(T.missing(x)))))
        else:
            out.append(z3.ForAll([a], T.call_val(fv, a) == retv))
        return out
    if cname == "Option":
        # a REAL dictionary (templated values, sections, falsy values) and a real Option; the facts about confectioner are measured natively
        from labrea import Option
        from confectioner.templating import get_dotted_key, resolve as _resolve
        from labrea.option import _templated_keys
        okey = rnd.choice(["A", "S.X", "B"])
        o = rnd.choice([{}, {"A": 1}, {"A": 0, "B": None}, {"A": "{B}", "B": 2}, {"A": "{NOPE}"}, {"S": {"X": "{A}"}, "A": 5}, {"S": 5}, {"S": {"X": [1, "{A}"]}, "A": False},
                        {"B": "x{A}y", "A": "v"}, {"A": {"k": "{B}"}}])
        dkind = rnd.choice(["none", "stub"])
        inst = Option(okey) if dkind == "none" else Option(okey, stubs["c0"])
        kt = z3.Const("key!" + okey, T.Key)
        KEYT = T.key_of_val(z3.Function("fld!Option.key", T.Ev, T.Val)(SELF))
        allkeys = ["A", "B", "S", "S.X", "NOPE", "S.X.0", "S.X.1", "A.k"]
        kc = {k: z3.Const("key!" + k, T.Key) for k in allkeys + ["C"]}
        facts = [z3.Distinct(*cterm.values(), SELF), z3.Distinct(*vals.values()), z3.Distinct(*kc.values()), KEYT == kt,
                 z3.Function("fld!Option.key", T.Ev, T.Val)(SELF) == T.val_of_key(kt),
                 z3.Function("fld!Option.domain", T.Ev, T.Val)(SELF) == T.MISSING,
                 z3.Function("fld!Option.default", T.Ev, T.Val)(SELF) == (T.MISSING if dkind == "none" else T.val_of_ev(cterm["c0"]))]

        def present(k):
            try:
                get_dotted_key(k, o)
                return True
            except (KeyError, TypeError):
                return False

        def blocked(k):
            try:
                get_dotted_key(k, o)
            except TypeError:
                return True
            except KeyError:
                return False
            return False
        for k in allkeys:
            facts.append(T.has(O1, kc[k]) == present(k))
            facts.append(T.blocked(O1, kc[k]) == blocked(k))
        tables["c0"] = random_table(rnd, "c0", {k: 1 for k in KEYS if present(k)})
        stubs["c0"].table = tables["c0"]
        keyconst2 = dict(keyconst)
        keyconst2.update(kc)
        facts += facts_for(cterm["c0"], tables["c0"], O1, vals, keyconst2)
        if present(okey):
            raw = get_dotted_key(okey, o)
            g = T.get(O1, kt)
            try:
                rv = _resolve(raw, dict(o))
                vals["resolved"] = z3.Const("cv!resolved", T.Val)
                facts += [T.resolve_ok(g, O1), T.resolve_val(g, O1) == vals["resolved"], z3.Distinct(*vals.values())]
                native_val = rv
            except KeyError as e:
                x = T.resolve_exc(g, O1)
                facts += [z3.Not(T.resolve_ok(g, O1)), T.is_cls["KeyError"](x), z3.Not(T.is_cls["TypeError"](x)), z3.Not(T.is_cls["EvaluationError"](x)), T.is_cls["Exception"](x),
                          z3.Not(T.missing(x))]
            except TypeError:
                x = T.resolve_exc(g, O1)
                facts += [z3.Not(T.resolve_ok(g, O1)), T.is_cls["TypeError"](x), z3.Not(T.is_cls["KeyError"](x)), z3.Not(T.is_cls["EvaluationError"](x)), T.is_cls["Exception"](x),
                          z3.Not(T.missing(x))]
            try:
                tk = _templated_keys(raw, dict(o))
                S = z3.EmptySet(T.Key)
                for k in tk:
                    S = z3.SetAdd(S, kc.get(k, z3.Const("key!" + k, T.Key)))
                facts += [T.TKok(g, O1), T.TKset(g, O1) == S]
            except Exception:  # noqa
                facts += [z3.Not(T.TKok(g, O1)), T.is_cls["KeyNotFoundError"](T.TKexc(g, O1)), T.is_cls["EvaluationError"](T.TKexc(g, O1)), T.missing(T.TKexc(g, O1))]
            tx = _templated_keys(raw, dict(o), explain=True)
            S = z3.EmptySet(T.Key)
            for k in tx:
                S = z3.SetAdd(S, kc.get(k, z3.Const("key!" + k, T.Key)))
            facts.append(T.TXset(g, O1) == S)
        return inst, o, facts, vals
    def native_table(obj):
        """the four outcomes of a REAL child under o, in the table format of the stubs"""
        from labrea.exceptions import KeyNotFoundError as KNF

        def run(f):
            try:
                return ("ok", f())
            except Exception as e:  # noqa
                x = e
                mk = None
                while x is not None:
                    if isinstance(x, KNF):
                        mk = x.key
                    x = x.__cause__
                return ("missing", mk) if mk is not None else ("fail",)
        ev = run(lambda: obj.evaluate(dict(o)))
        vl = run(lambda: obj.validate(dict(o)))
        ks = run(lambda: obj.keys(dict(o)))
        ex = run(lambda: obj.explain(dict(o)))
        return {"evaluate": ev, "validate": vl if vl[0] != "ok" else ("ok",), "keys": ("ok", sorted(ks[1])) if ks[0] == "ok" else ks,
                "explain": ("ok", sorted(ex[1])) if ex[0] == "ok" else ex}
    if cname in ("FunctionApplication", "PartialApplication"):
        from labrea.application import FunctionApplication, PartialApplication
        f = Fn("f1", "ret-f1", raises=rnd.random() < 0.3)
        fv = z3.Const("cv!f1", T.Val)
        vals["ret-f1"] = z3.Const("cv!ret-f1", T.Val)
        cls_ = FunctionApplication if cname == "FunctionApplication" else PartialApplication
        inst = cls_(f, stubs["c0"], b=stubs["c1"]) if rnd.random() < 0.7 else cls_(f)
        tf, ta = z3.Const("cc!func", T.Ev), z3.Const("cc!args", T.Ev)
        av = z3.Const("cv!args", T.Val)
        vals2 = dict(vals)
        tab_f = native_table(inst.func)
        tab_a = native_table(inst.arguments)
        if tab_f["evaluate"][0] == "ok":
            vals2[tab_f["evaluate"][1]] = fv
        if tab_a["evaluate"][0] == "ok":
            tab_a = dict(tab_a)
            tab_a["evaluate"] = ("ok", "ARGS")
            vals2["ARGS"] = av
        facts += [z3.Distinct(tf, ta, *cterm.values(), SELF), z3.Distinct(fv, av, *vals.values())]
        facts += facts_for(tf, tab_f, O1, vals2, keyconst) + facts_for(ta, tab_a, O1, vals2, keyconst)
        facts += [fld(cname, "func") == tf, fld(cname, "arguments") == ta] + fn_facts(fv, f, vals["ret-f1"])
        return inst, o, facts, vals
    if cname == "Value":
        from labrea import Value
        inst = Value("val-c0")
        facts.append(z3.Function("fld!Value.value", T.Ev, T.Val)(SELF) == vals["val-c0"])
        return inst, o, facts, vals
    if cname in ("Apply", "Bind"):
        from labrea.types import Apply, Bind
        f = Fn("f1", "ret-f1" if cname == "Apply" else stubs["c2"], raises=rnd.random() < 0.3)
        fv = z3.Const("cv!f1", T.Val)
        vals["ret-f1"] = z3.Const("cv!ret-f1", T.Val)
        facts.append(z3.Distinct(fv, *vals.values()))
        if cname == "Apply":
            tables["c1"] = dict(tables["c1"])
            if tables["c1"]["evaluate"][0] == "ok":
                tables["c1"]["evaluate"] = ("ok", f)
            stubs["c1"].table = tables["c1"]
            # the facts about c1 were stated with its sentinel value: restate with the function value
            facts = [x for x in facts if "cv!c1" not in str(x)] + [z3.Distinct(*vals.values())]
            vals2 = dict(vals)
            vals2[f] = fv
            facts += facts_for(cterm["c1"], tables["c1"], O1, vals2, keyconst)
            inst = Apply(stubs["c0"], stubs["c1"])
            facts += [fld("Apply", "evaluatable") == cterm["c0"], fld("Apply", "func") == cterm["c1"]] + fn_facts(fv, f, vals["ret-f1"])
        else:
            inst = Bind(stubs["c0"], f)
            facts += [fld("Bind", "evaluatable") == cterm["c0"], z3.Function("fld!Bind.func", T.Ev, T.Val)(SELF) == fv] + fn_facts(fv, f, T.val_of_ev(cterm["c2"]))
        return inst, o, facts, vals
    if cname == "EvaluatableKwargs":
        from labrea.arguments import EvaluatableKwargs
        k = rnd.randint(0, 3)
        items = names[:k]
        inst = EvaluatableKwargs(**{f"k{n}": stubs[n] for n in items})
        nf = z3.Function("fld!EvaluatableKwargs.kwargs#n", T.Ev, T.I)(SELF)
        kf = z3.Function("fld!EvaluatableKwargs.kwargs#key", T.Ev, T.I, T.Val)
        vf = z3.Function("fld!EvaluatableKwargs.kwargs#val", T.Ev, T.I, T.Ev)
        facts += [nf == len(items)] + [vf(SELF, i) == cterm[x] for i, x in enumerate(items)] + [kf(SELF, i) == T.val_of_key(z3.Const(f"key!k{x}", T.Key)) for i, x in enumerate(items)]
        return inst, o, facts, vals
    if cname == "CaseWhen":
        from labrea.conditional import CaseWhen
        truth = rnd.choice([True, False])
        pred = Fn("p1", truth, raises=rnd.random() < 0.2)
        pv = z3.Const("cv!p1", T.Val)
        with_default = rnd.random() < 0.5
        tables["c1"] = dict(tables["c1"])
        if tables["c1"]["evaluate"][0] == "ok":
            tables["c1"]["evaluate"] = ("ok", pred)
        stubs["c1"].table = tables["c1"]
        facts = [x for x in facts if "cv!c1" not in str(x)] + [z3.Distinct(*vals.values()), z3.Distinct(pv, *vals.values())]
        vals2 = dict(vals)
        vals2[pred] = pv
        facts += facts_for(cterm["c1"], tables["c1"], O1, vals2, keyconst)
        c3 = Stub("c3", random_table(rnd, "c3", o))
        t3 = z3.Const("cc!c3", T.Ev)
        vals["val-c3"] = z3.Const("cv!c3", T.Val)
        facts += facts_for(t3, c3.table, O1, vals, keyconst) + [z3.Distinct(t3, *cterm.values(), SELF)]
        inst = CaseWhen(stubs["c0"], [(stubs["c1"], stubs["c2"])], c3) if with_default else CaseWhen(stubs["c0"], [(stubs["c1"], stubs["c2"])])
        n_ = z3.Function("fld!CaseWhen.cases#n", T.Ev, T.I)(SELF)
        a0 = z3.Function("fld!CaseWhen.cases#at0", T.Ev, T.I, T.Ev)
        a1 = z3.Function("fld!CaseWhen.cases#at1", T.Ev, T.I, T.Ev)
        tv = T.TRUE if truth else T.FALSE
        facts += [fld("CaseWhen", "dispatch") == cterm["c0"], n_ == 1, a0(SELF, 0) == cterm["c1"], a1(SELF, 0) == cterm["c2"],
                  z3.Function("fld!CaseWhen.default", T.Ev, T.Val)(SELF) == (T.val_of_ev(t3) if with_default else T.MISSING)] + fn_facts(pv, pred, tv)
        return inst, o, facts, vals
    return None


def native(inst, meth, o):
    from labrea.exceptions import EvaluationError
    try:
        r = getattr(inst, meth)(dict(o))
        if hasattr(r, "__iter__") and not isinstance(r, (list, tuple, dict, set, str)):
            r = list(r)
        return ("ok", r)
    except Exception as e:  # noqa
        x = e
        while x.__cause__ is not None:
            x = x.__cause__
        from labrea.exceptions import KeyNotFoundError
        return ("exc", isinstance(x, KeyNotFoundError))


def crosscheck(cname, seed=0, samples=20, repo=None):
    """returns (mismatches, checked)"""
    repo = repo or Repo()
    ci = repo.find_class(cname)
    rnd = random.Random(seed)
    Stub = make_stub_class()
    R = Runs(repo, ci)
    hyp = T.val_axioms()      # ground facts pin the scenario down; the quantified theory is not needed to decide which path is taken
    mismatches, checked = [], 0
    for _ in range(samples):
        sc = scenario(cname, rnd, Stub)
        if sc is None:
            return [], 0
        inst, o, facts, vals = sc
        for meth in ("evaluate", "validate", "keys", "explain"):
            ps = R.paths(meth, 1)
            if any(p.kind == "unsupported" for p in ps):
                continue
            nat = native(inst, meth, o)
            consistent = []
            for p in ps:
                s = z3.Solver()
                s.set("timeout", 400)
                s.add(*hyp)
                s.add(*facts)
                s.add(*p.pc)
                s.add(*p.defs)
                if s.check() != z3.unsat:
                    consistent.append(p)
            checked += 1
            kinds = {p.kind for p in consistent}
            if not consistent:
                mismatches.append((cname, meth, o, "no symbolic path is consistent with the scenario", nat))
                continue
            if nat[0] == "ok" and "ok" not in kinds:
                mismatches.append((cname, meth, o, f"native returns {nat[1]!r} but every consistent symbolic path fails", [str(c)[:60] for c in consistent[0].pc[:3]]))
            if nat[0] == "exc" and kinds == {"ok"}:
                mismatches.append((cname, meth, o, "native fails but every consistent symbolic path returns", nat))
            # key sets of keys()/explain() on the consistent returning paths
            fs = " ".join(str(x) for x in facts[:3])
            ALLK = [k for k in KEYS + ["S", "S.X", "NOPE"] if ("key!" + k + ",") in fs or ("key!" + k + ")") in fs]
            if nat[0] == "ok" and meth in ("keys", "explain") and isinstance(nat[1], set) and nat[1] <= set(ALLK):
                keyconst = {k: z3.Const("key!" + k, T.Key) for k in ALLK}
                for p in [p for p in consistent if p.kind == "ok" and p.value[0] == "kset"]:
                    for k in ALLK:
                        s = z3.Solver()
                        s.set("timeout", 400)
                        s.add(*hyp, *facts, *p.pc, *p.defs)
                        s.add(z3.IsMember(keyconst[k], p.value[1]) != (k in nat[1]))
                        if s.check() == z3.sat:
                            mismatches.append((cname, meth, o, f"native {meth} = {sorted(nat[1])} but the symbolic set disagrees on {k}", None))
            # value check for evaluate on single-valued results
            if nat[0] == "ok" and meth == "evaluate" and isinstance(nat[1], str) and nat[1] in vals:
                okp = [p for p in consistent if p.kind == "ok"]
                for p in okp:
                    s = z3.Solver()
                    s.set("timeout", 400)
                    s.add(*hyp, *facts, *p.pc, *p.defs)
                    s.add(p.value[1] != vals[nat[1]])
                    if s.check() == z3.sat and len(okp) == 1:
                        mismatches.append((cname, meth, o, f"native value {nat[1]} differs from the symbolic result {p.value[1]}", None))
    return mismatches, checked


CLASSES = ["Logged", "PipelineStep", "Iter", "EvaluatableArgs", "Coalesce", "Switch", "Overloaded", "Value", "Apply", "Bind", "EvaluatableKwargs", "CaseWhen", "Option", "FunctionApplication", "PartialApplication"]

if __name__ == "__main__":
    import sys
    tot = 0
    for c in (sys.argv[1:] or CLASSES):
        m, n = crosscheck(c, 0, 12)
        tot += n
        print(c, n, "checked", len(m), "mismatches")
        for x in m[:3]:
            print("   ", x)
