"""Bounded check / witness search for C19 on the real code."""
from __future__ import annotations

import copy
import random


def build():
    from labrea import dataset, datasetclass, Option

    @dataset
    def ds(a=Option("A")):
        return ("ds", a)

    @datasetclass
    class Parent:
        a: tuple = ds
        b: int = Option("B", 1)
        c: bool = True
        nested: int = Option("S.X", 0)
        _p: int = Option("PRIV", 3)      # a member with a single leading underscore is a member like any other (only dunder names are skipped)

    @datasetclass
    class Child(Parent):
        d: float = Option("EXTRA.D", 0.5)
        e: str = "const"
        ab: int = Option("AB", 7)        # a key that has another reported key ("A") as a plain string prefix
    return Parent, Child, ds


def check(o1, o2, order):
    from confectioner.templating import get_dotted_key, dotted_key_exists
    msgs = []
    Parent, Child, ds = build()
    classes = [Parent, Child] if order == "parent-first" else [Child, Parent]
    for cls in classes:      # parent used before child, or the other way round
        try:
            cls.keys(o1)
        except Exception:  # noqa
            pass
    for cls, members in ((Parent, {"a": ds, "b": None, "nested": None}), (Child, {"a": ds, "b": None, "nested": None, "d": None, "ab": None})):
        try:
            inst = cls(copy.deepcopy(o1))
        except Exception as e:  # noqa
            if "A" in o1:
                msgs.append(f"{cls.__name__}({o1}) failed: {e!r}")
            continue
        want = {"a": ("ds", o1["A"]), "b": o1.get("B", 1), "c": True, "nested": o1.get("S", {}).get("X", 0), "_p": o1.get("PRIV", 3)}
        if cls is Child:
            want.update({"d": o1.get("EXTRA", {}).get("D", 0.5), "e": "const", "ab": o1.get("AB", 7)})
        for k, v in want.items():
            if getattr(inst, k) != v:
                msgs.append(f"{cls.__name__}({o1}).{k} = {getattr(inst, k)!r}, expected {v!r}")
        ks = cls.keys(o1)
        union = set()
        for name in ("a", "b", "nested", "_p") + (("d", "ab") if cls is Child else ()):
            m = {"a": ds, "b": Option_("B", 1), "nested": Option_("S.X", 0), "d": Option_("EXTRA.D", 0.5), "ab": Option_("AB", 7), "_p": Option_("PRIV", 3)}[name]
            union |= m.keys(o1)
        if ks != union:
            msgs.append(f"{cls.__name__}.keys({o1}) = {sorted(ks)}, union over members = {sorted(union)} (order={order})")
        if cls.explain(o1) != {k for name in ("a", "b", "nested", "_p") + (("d", "ab") if cls is Child else ()) for k in {"a": ds, "b": Option_("B", 1), "nested": Option_("S.X", 0), "d": Option_("EXTRA.D", 0.5), "ab": Option_("AB", 7), "_p": Option_("PRIV", 3)}[name].explain(o1)}:
            msgs.append(f"{cls.__name__}.explain({o1}) is not the union over members (order={order})")
        # the instance is a snapshot: mutating the dictionary it was built from afterwards changes neither ==, repr nor its members
        live = copy.deepcopy(o1)
        snap_inst = cls(live)
        before = repr(snap_inst)
        live["B"] = 99
        live.setdefault("S", {})["X"] = 77
        if repr(snap_inst) != before or snap_inst != inst:
            msgs.append(f"{cls.__name__}: instance built from {o1} changed (repr/==) after the caller mutated that dictionary: {before} -> {snap_inst!r}")
        try:
            other = cls(copy.deepcopy(o2))
        except Exception:  # noqa
            continue
        def restricted(o, keys):
            return {k: get_dotted_key(k, o) for k in keys if dotted_key_exists(k, o)}
        union2 = set()
        for name in ("a", "b", "nested", "_p") + (("d", "ab") if cls is Child else ()):
            union2 |= {"a": ds, "b": Option_("B", 1), "nested": Option_("S.X", 0), "d": Option_("EXTRA.D", 0.5), "ab": Option_("AB", 7), "_p": Option_("PRIV", 3)}[name].keys(o2)
        same = restricted(o1, union) == restricted(o2, union2)     # the relevant options: what the MEMBERS read (not what the class under test reports)
        if (inst == other) != same:
            msgs.append(f"{cls.__name__}({o1}) == {cls.__name__}({o2}) is {inst == other}, but the relevant options are {'equal' if same else 'different'} (order={order})")
        for k in cls.keys(o1):
            leaf = k.split(".")[-1]
            if leaf not in repr(inst):
                msgs.append(f"repr({cls.__name__}({o1})) = {inst!r} does not show key {k}")
    # defining a subclass that overrides an annotated member with a constant leaves the parent class untouched
    from labrea import datasetclass as _dc, Option as _Opt

    @_dc
    class Base:
        flag: bool = True
        rate: int = _Opt("RATE", 3)

    before = (Base.keys({"RATE": 1}), Base({"RATE": 1}).flag, Base({"RATE": 1}).rate)

    @_dc
    class Derived(Base):
        flag = False
        rate = 7
    after = (Base.keys({"RATE": 1}), Base({"RATE": 1}).flag, Base({"RATE": 1}).rate)
    if before != after:
        msgs.append(f"defining a subclass changed its parent dataset class: keys/flag/rate {before} -> {after}")
    d_ = Derived({"RATE": 1})
    if (d_.flag, d_.rate) != (False, 7):
        msgs.append(f"subclass overrides not in effect: flag={d_.flag!r} rate={d_.rate!r}")
    return msgs


def Option_(*a, **k):
    from labrea import Option
    return Option(*a, **k)


DICTS = [{"A": 1}, {"A": 1, "B": 2}, {"A": 1, "S": {"X": 1}}, {"A": 1, "S": {"X": 2}}, {"A": 1, "EXTRA": {"D": 1.5}}, {"A": 1, "EXTRA": {"D": 2.5}},
         {"A": 2, "UNUSED": 1}, {"A": 1, "UNUSED": 5}, {"A": 1, "AB": 3}, {"A": 1, "AB": 4}, {"A": 1, "PRIV": 4}, {"A": 1, "PRIV": 5, "B": 2}]


def replay(case):
    m = check(case["o1"], case["o2"], case["order"])
    return bool(m), f"case={case}\n" + ("\n".join(m[:4]) or "holds")


def search(seed=0, budget=None):
    n = 0
    for order in ("parent-first", "child-first"):
        for o1 in DICTS:
            for o2 in DICTS:
                n += 1
                try:
                    if check(o1, o2, order):
                        return {"module": "harness.datasetclass_search", "case": {"o1": o1, "o2": o2, "order": order}}, n
                except Exception:  # noqa
                    continue
    return None, n
