"""Bounded check / witness search for C07 on the real code: histories interleaving register / overload / set_dispatch with
evaluations against a table model; interface implementations (all-or-nothing, same alias for all members, defaults)."""
from __future__ import annotations

import random


def run_history(ops):
    from labrea import dataset, Option, Value
    msgs = []

    @dataset(dispatch="KIND", callback=lambda v: ("cb", v))
    def d(a=Option("A", 0)):
        return ("default", a)
    table = {}
    abstract = False
    for op in ops:
        k = op[0]
        if k == "register":
            d.register(op[1], Option("A", 0) >> (lambda a, alias=op[1], tag=op[2]: ("impl", alias, tag, a)))
            table[op[1]] = ("impl", op[1], op[2])
        elif k == "overload":
            tag = op[2]

            def f(a=Option("A", 0), tag=tag, alias=op[1]):
                return ("impl", alias if not isinstance(alias, list) else alias[0], tag, a)
            aliases = op[1]
            d.overload(aliases)(f)
            for a in (aliases if isinstance(aliases, list) else [aliases]):
                table[a] = ("impl", aliases if not isinstance(aliases, list) else aliases[0], tag)
        elif k == "set_dispatch":
            d.set_dispatch(Option(op[1]))
            dispatch_key = op[1]
            table = dict(table)
            run_history.key = op[1]
        elif k == "eval":
            key = getattr(run_history, "key", "KIND")
            o = {"A": op[2]}
            if op[1] is not None:
                o[key] = op[1]
            want = ("cb", table[op[1]] + (op[2],)) if op[1] in table else ("cb", ("default", op[2]))
            try:
                got = d(o)
            except Exception as e:  # noqa
                got = ("err", type(e).__name__)
            if got != want:
                msgs.append(f"after {ops[:ops.index(op)]}: evaluating {o} gives {got!r}, registered table says {want!r}")
    return msgs


def interface_cases():
    from labrea import interface, implements, dataset, abstractdataset, Option
    msgs = []

    @interface("IMPL")
    class Store:
        a: int

        @abstractdataset
        def b() -> int:
            pass

        @dataset
        def c() -> str:
            return "c-default"
        d: str = Option("D", "d-default")

    @Store.implementation(["X", "X2"])
    class X:
        a = 1

        def b():
            return 2

    for alias in ("X", "X2"):
        o = {"IMPL": alias}
        got = (Store.a(o), Store.b(o), Store.c(o), Store.d(o))
        if got != (1, 2, "c-default", "d-default"):
            msgs.append(f"alias {alias}: members resolve to {got}, expected (1, 2, 'c-default', 'd-default')")
    # rejected implementations register nothing (omitted abstract member placed after provided ones; unknown member)
    for bad in ("missing", "unknown"):
        try:
            if bad == "missing":
                @Store.implementation("BAD")
                class Bad:
                    a = 9
            else:
                @Store.implementation("BAD")
                class Bad2:
                    a = 9

                    def b():
                        return 9
                    zzz = 1
            msgs.append(f"{bad}: implementation was accepted")
        except TypeError:
            pass
        for member in (Store.a, Store.c):
            try:
                r = member({"IMPL": "BAD"})
                if member is Store.a:
                    msgs.append(f"{bad}: rejected implementation registered member a under its alias (a -> {r})")
            except Exception:  # noqa
                pass
    # a member that already is a dataset WITH ITS OWN dispatch is re-pointed to the interface's dispatch: under one options dictionary all members agree
    @interface("ENV")
    class Conn:
        @dataset(dispatch="STORE.KIND")
        def fmt() -> str:
            return "fmt-default"

        @dataset
        def uri() -> str:
            return "uri-default"

    @Conn.implementation("PROD")
    class Prod:
        def fmt():
            return "fmt-prod"

        def uri():
            return "uri-prod"
    for o, want in (({"ENV": "PROD"}, ("fmt-prod", "uri-prod")), ({"ENV": "DEV", "STORE": {"KIND": "PROD"}}, ("fmt-default", "uri-default"))):
        got = (Conn.fmt(o), Conn.uri(o))
        if got != want:
            msgs.append(f"interface members disagree under {o}: {got}, expected {want} (a member dataset kept its own dispatch)")
    # two interfaces declaring a member of the same name, implemented together: BOTH get the implementation; an abstract one of the second is required
    @interface("IMPL")
    class Reader:
        @dataset
        def name() -> str:
            return "reader-default"

    @interface("IMPL")
    class Writer:
        @dataset
        def name() -> str:
            return "writer-default"

        @abstractdataset
        def flush() -> int:
            pass

    @implements(Reader, Writer, alias="BOTH")
    class Both:
        def name():
            return "both"

        def flush():
            return 1
    got = (Reader.name({"IMPL": "BOTH"}), Writer.name({"IMPL": "BOTH"}))
    if got != ("both", "both"):
        msgs.append(f"one implementation of two interfaces with a same-named member: {got}, expected ('both', 'both')")
    try:
        @implements(Reader, Writer, alias="PARTIAL")
        class Partial:
            def name():
                return "partial"
        msgs.append("an implementation omitting a member that is abstract in its second interface was accepted")
    except TypeError:
        pass
    return msgs


def replay(case):
    if case.get("interface"):
        m = interface_cases()
    else:
        run_history.key = "KIND"
        m = run_history([tuple(o) if not isinstance(o[1], list) else (o[0], o[1], *o[2:]) for o in case["ops"]])
    return bool(m), f"case={case}\n" + ("\n".join(m[:5]) or "holds")


def search(seed=0, budget=200):
    if interface_cases():
        return {"module": "harness.dispatch_search", "case": {"interface": True}}, 1
    rnd = random.Random(seed)
    n = 0
    aliases = ["x", "y", 3]
    for _ in range(budget):
        ops = []
        for _ in range(rnd.randint(2, 7)):
            r = rnd.random()
            if r < 0.25:
                ops.append(("register", rnd.choice(aliases), rnd.randint(0, 9)))
            elif r < 0.45:
                ops.append(("overload", rnd.choice([rnd.choice(aliases), ["x", "y"]]), rnd.randint(0, 9)))
            else:
                ops.append(("eval", rnd.choice(aliases + [None, "unregistered"]), 1000 * len(ops) + rnd.randint(0, 99)))   # distinct A: never already stored
        run_history.key = "KIND"
        n += 1
        if run_history(ops):
            return {"module": "harness.dispatch_search", "case": {"ops": [list(o) for o in ops]}}, n
    return None, n
