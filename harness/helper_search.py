"""Bounded differential check of the helper steps of labrea.functions against their specifications (contracts/helpers_c13.py SPEC), on the REAL code.
Stands in (labelled bounded) for a helper whose step function is no longer literally its specification, and supplies the failing input for a violated
helper obligation.  Universe: the value pool below for the input and for every argument (every combination; variadic helpers with 0..2 arguments),
arguments given as constants and as options."""
from __future__ import annotations

import builtins
import functools
import itertools
from types import MappingProxyType


def pool():
    """factories (fresh value per call: generators are one-shot)"""
    inc = lambda v: v + 1                # noqa
    even = lambda v: v % 2 == 0          # noqa
    pair = lambda a=0, b=0: (a, b)       # noqa
    dup = lambda v: [v, v]               # noqa
    P = [("0", lambda: 0), ("1", lambda: 1), ("2", lambda: 2), ("3", lambda: 3), ("-1.5", lambda: -1.5), ("True", lambda: True), ("None", lambda: None),
         ("'abc'", lambda: "abc"), ("'a'", lambda: "a"), ("'ab'", lambda: "ab"), ("''", lambda: ""),
         ("[1,2,3]", lambda: [1, 2, 3]), ("[]", lambda: []), ("['a','ab','bc','z']", lambda: ["a", "ab", "bc", "z"]), ("(2,3)", lambda: (2, 3)), ("[[1],[2]]", lambda: [[1], [2]]),
         ("[[1,2],[3]]", lambda: [[1, 2], [3]]), ("{1,2}", lambda: {1, 2}), ("{2,3}", lambda: {2, 3}), ("set()", lambda: set()),
         ("{'a':1,'b':2}", lambda: {"a": 1, "b": 2}), ("{'b':3}", lambda: {"b": 3}), ("MP{'a':1}", lambda: MappingProxyType({"a": 1})), ("{1:'x'}", lambda: {1: "x"}),
         ("gen(1,2)", lambda: (v for v in (1, 2))), ("iter([2,3])", lambda: iter([2, 3])),
         ("inc", lambda: inc), ("even", lambda: even), ("pair", lambda: pair), ("dup", lambda: dup), ("int", lambda: int), ("str", lambda: str),
         ("'upper'", lambda: "upper"), ("'real'", lambda: "real"), ("'k'", lambda: "k")]
    return P


def _materialise(v, depth=0):
    if depth > 4:
        return v
    if isinstance(v, MappingProxyType):
        return ("mappingproxy", {k: _materialise(x, depth + 1) for k, x in v.items()})
    if isinstance(v, (list, tuple)):
        return type(v)(_materialise(x, depth + 1) for x in v)
    if isinstance(v, dict):
        return {k: _materialise(x, depth + 1) for k, x in v.items()}
    if isinstance(v, (set, frozenset, str, bytes)) or not hasattr(v, "__iter__") or isinstance(v, type):
        return v
    return ("iterator", [_materialise(x, depth + 1) for x in v])


def _outcome(f):
    try:
        return ("ok", _materialise(f()))
    except BaseException as e:  # noqa
        while e.__cause__ is not None:
            e = e.__cause__
        return ("err", type(e).__name__)


def _strict(a, b):
    from .lawsearch import strict_eq
    return a[0] == b[0] and (strict_eq(a[1], b[1]) if a[0] == "ok" else a[1] == b[1])


def _ref_env():
    import labrea.functions as F
    from labrea._missing import MISSING
    from contracts.helpers_c13 import SPEC
    env = {"builtins": builtins, "functools": functools, "itertools": itertools, "MISSING": MISSING, "MappingProxyType": MappingProxyType}
    import inspect
    import re
    for n in ("_reduce", "_get", "_ensure", "_call_method", "_flatten", "_negate"):
        ns = dict(env)
        # the specification's a0, a1, ... are the parameters of the private function in order; calls bind some of them by keyword
        names = list(inspect.signature(getattr(F, n)).parameters)
        text = re.sub(r"\ba(\d+)\b", lambda mm: names[int(mm.group(1))] if int(mm.group(1)) < len(names) else mm.group(0), SPEC[n])
        exec(text.replace("def _(", f"def {n}(", 1), ns)
        env[n] = ns[n]
    return env, F


def spec_fn(name):
    """the specification of helper `name` as a python function (x, args, kwargs) -> value"""
    from contracts.helpers_c13 import SPEC, DEFAULTS
    env, F = _ref_env()
    spec = SPEC[name]
    from labrea._missing import MISSING
    if name in ("partial", "ensure", "into"):
        return None
    if spec.startswith(("STEP: ", "CONST: ")):
        # a helper specified as a composition of other helpers: the composition is built from the REAL components (each under its own contract)
        tag, expr = spec.split(": ", 1)
        import inspect
        lead_ = 0 if tag == "CONST" else len([p for p in inspect.signature(getattr(F, name)).parameters.values() if p.kind in (p.POSITIONAL_ONLY, p.POSITIONAL_OR_KEYWORD)])

        def run_step(x, args, kwargs):
            ns = dict(vars(F))
            ns.update({"a0": args[0] if args else None, "a1": args[1] if len(args) > 1 else None, "va": tuple(args[lead_:]), "kw": dict(kwargs)})
            built = eval(expr, ns)
            step = built if tag == "CONST" else F.PipelineStep(built, "spec")
            return step.transform(x, {})
        return run_step
    f = eval("lambda x, a0, a1, va, kw: " + spec, env)
    dflt = {k: eval(v, env) for k, v in DEFAULTS.get(name, {}).items()}

    import inspect
    params = list(inspect.signature(getattr(F, name)).parameters.values())
    lead = len([p for p in params if p.kind in (p.POSITIONAL_ONLY, p.POSITIONAL_OR_KEYWORD)])

    def run(x, args, kwargs):
        a0 = args[0] if len(args) > 0 else dflt.get("a0")
        a1 = args[1] if len(args) > 1 else dflt.get("a1", MISSING)
        return f(x, a0, a1, tuple(args[lead:]), dict(kwargs))
    return run


# values an options dictionary can hold unchanged (JSON); the others are given as constants only
JSON_SAFE = {"0", "1", "2", "3", "-1.5", "True", "None", "'abc'", "'a'", "'ab'", "''", "[1,2,3]", "[]", "['a','ab','bc','z']", "[[1],[2]]", "[[1,2],[3]]", "{'a':1,'b':2}", "{'b':3}",
             "'upper'", "'real'", "'k'"}
VARIADIC = {"instance_of", "all", "any", "one_of", "none_of"}
ARITY = {"reduce": (1, 2), "get": (1, 2), "get_from": (1, 2), "has_remainder": (2, 2), "invert": (0, 1)}


def check_case(name, xi, argi, as_option):
    import labrea.functions as F
    from labrea import Option
    P = pool()
    spec = spec_fn(name)
    if spec is None:
        return None
    mk = lambda i: P[i][1]()     # noqa
    from contracts.helpers_c13 import SPEC
    if SPEC[name].startswith("CONST: "):
        got = _outcome(lambda: getattr(F, name).transform(mk(xi), {}))
        want = _outcome(lambda: spec(mk(xi), [], {}))
        if not _strict(got, want):
            return f"{name} applied to {P[xi][0]} gives {got!r}; the documented step gives {want!r}"
        return None
    if as_option:
        opts = {f"ARG{i}": mk(j) for i, j in enumerate(argi)}
        got = _outcome(lambda: getattr(F, name)(*[Option(f"ARG{i}") for i in range(len(argi))]).transform(mk(xi), opts))
    else:
        got = _outcome(lambda: getattr(F, name)(*[mk(j) for j in argi]).transform(mk(xi), {}))
    want = _outcome(lambda: spec(mk(xi), [mk(j) for j in argi], {}))
    if not _strict(got, want):
        return f"{name}({', '.join(P[j][0] for j in argi)}) applied to {P[xi][0]} gives {got!r}; the documented operation gives {want!r} (arguments as {'options' if as_option else 'constants'})"
    return None


def replay(case):
    msg = check_case(case["helper"], case["x"], case["args"], case["as_option"])
    return msg is not None, f"case={case}\n{msg or 'holds'}"


def search(names=None, limit_per_helper=4000):
    """returns (witness or None, cases run)"""
    from contracts.helpers_c13 import SPEC
    P = pool()
    n = 0
    idx = range(len(P))
    for name in (names or [k for k in SPEC if not k.startswith("_")]):
        if spec_fn(name) is None:
            continue
        lo, hi = ARITY.get(name, (1, 1))
        if name in VARIADIC:
            lo, hi = 0, 2
        if name == "call_method":
            lo, hi = 1, 1
        if SPEC[name].startswith("CONST: "):
            lo, hi = 0, 0
        combos = []
        for k in range(lo, hi + 1):
            combos += list(itertools.product(idx, repeat=k))
        count = 0
        for argi in combos:
            for xi in idx:
                for as_option in (False, True):
                    if as_option and any(P[j][0] not in JSON_SAFE for j in argi):
                        continue
                    if as_option and (name in ("eq", "ne", "gt", "ge", "lt", "le", "get", "get_from", "get_attribute", "call_method", "map", "filter", "reduce") or not argi):
                        continue   # these bind their argument as given (a callable / key is not wrapped)
                    count += 1
                    if count > limit_per_helper:
                        continue
                    n += 1
                    try:
                        msg = check_case(name, xi, list(argi), as_option)
                    except Exception:  # noqa  harness trouble is never a violation
                        continue
                    if msg:
                        return {"module": "harness.helper_search", "case": {"helper": name, "x": xi, "args": list(argi), "as_option": as_option}, "message": msg}, n
    return None, n


if __name__ == "__main__":
    import sys
    import time
    t = time.time()
    print(search(limit_per_helper=int(sys.argv[1]) if len(sys.argv) > 1 else 4000), time.time() - t)
