"""Witness search for undischarged interface-law obligations: runs the executable form of a law on the REAL labrea
over a small universe of expressions (recipes, rebuilt by eval so that a replay file is self-contained) and dictionaries.
Refutation only: a witness found here is a genuine violation; finding none proves nothing."""
from __future__ import annotations

import copy
import itertools
import json
import random

NS = None


def ns():
    global NS
    if NS is not None:
        return NS
    import labrea
    from labrea import Option, Value, switch, case, coalesce, cached, dataset, Template, Map, Iter
    from labrea.option import WithOptions, WithDefaultOptions, AllOptions
    from labrea.application import FunctionApplication, PartialApplication
    from labrea.arguments import EvaluatableArgs, EvaluatableKwargs, EvaluatableArguments
    from labrea.computation import Computation, CallbackEffect, ChainedEffect
    from labrea.logging import Logged
    from labrea.overload import Overloaded
    from labrea.pipeline import Pipeline, PipelineStep, pipeline_step, Identity
    from labrea.cache import Cached, MemoryCache, NoCache
    from labrea.types import Apply, Bind
    import labrea.functions as F

    def ident(x):
        return x

    def inc(x):
        return x + 1

    def pair(a, b=0):
        return (a, b)

    def boom(*a, **k):
        raise RuntimeError("boom")

    def bare(*a, **k):
        raise ValueError()          # an exception without arguments

    def both(a, b=()):
        return (list(a), list(b))

    def ds_eff(*effects):
        """a dataset over Option('A') with the given effects (option-valued pipeline steps / callables)"""
        return dataset(lambda a=Option("A", 1): a, effects=list(effects))

    def pick(a):
        return Option("X") if a else Value(0)

    def ds(*deps, **kw):
        """a dataset whose body returns the tuple of its arguments"""
        names = [f"a{i}" for i in range(len(deps))]
        src = f"def body({', '.join(f'{n}=deps[{i}]' for i, n in enumerate(names))}):\n    return ({', '.join(names)}{',' if names else ''})"
        env = {"deps": deps}
        exec(src, env)
        return dataset(env["body"], **kw)

    def pdiv(x):
        return 10 // x

    RAISED = []

    def raiser(tname, when=lambda *a, **k: True):
        """a user callable that raises a fresh exception of the named type (recorded in RAISED) when `when` holds of its arguments"""
        import builtins as _b
        T_ = getattr(_b, tname, None) or type(tname, (Exception,), {})

        def user_code(*a, **k):
            if when(*a, **k):
                x = T_("user-code failure")
                RAISED.append(x)
                raise x
            return a[0] if a else None
        return user_code

    def ds_body(fn, *deps):
        """a dataset whose body is fn applied to its (evaluated) arguments"""
        names = [f"a{i}" for i in range(len(deps))]
        src = f"def body({', '.join(f'{n}=deps[{i}]' for i, n in enumerate(names))}):\n    return fn({', '.join(names)})"
        env = {"deps": deps, "fn": fn}
        exec(src, env)
        return dataset(env["body"])

    LOG = []

    def mkns():
        @Option.namespace
        class LOGGING:
            LEVEL = Option.auto(default=3, doc="level")
            FMT = Option("FMT", "plain")
            KEEP: int
            PATH = "{A}/x.csv"          # bare class attribute with a templated default
            NUM = 5

        @Option.namespace
        class SERVICE_A:
            LOGGING_ = LOGGING
            NAME = "a"

        @Option.namespace
        class SERVICE_B:
            LOGGING_ = LOGGING
            X = Option.auto(default=0) >> inc
        @Option.namespace("INNER")
        class INNER:
            X = Option("X", "fallback")

        @Option.namespace("MID")
        class MID:
            INNER_ = INNER
            M = 1

        @Option.namespace
        class TOP:
            MID_ = MID
        return {"LOGGING": LOGGING, "SERVICE_A": SERVICE_A, "SERVICE_B": SERVICE_B, "TOP": TOP}

    def NSPATHS(root):
        """(path, thunk giving the member through the namespace, fully-qualified Option) for the namespaces built by mkns()"""
        out = []
        for rootname, nsobj in root.items():
            if rootname == "TOP":
                out += [("TOP.MID.INNER.X", lambda n=nsobj: n.MID_.INNER_.X, Option("TOP.MID.INNER.X", "fallback")), ("TOP.MID.M", lambda n=nsobj: n.MID_.M, Option("TOP.MID.M", 1))]
                continue
            if rootname == "LOGGING":
                out += [("LOGGING.LEVEL", lambda n=nsobj: n.LEVEL, Option("LOGGING.LEVEL", 3)), ("LOGGING.FMT", lambda n=nsobj: n.FMT, Option("LOGGING.FMT", "plain")),
                        ("LOGGING.KEEP", lambda n=nsobj: n.KEEP, Option("LOGGING.KEEP")), ("LOGGING.PATH", lambda n=nsobj: n.PATH, Option("LOGGING.PATH", "{A}/x.csv")),
                        ("LOGGING.NUM", lambda n=nsobj: n.NUM, Option("LOGGING.NUM", 5))]
            else:
                out += [(f"{rootname}.LOGGING.LEVEL", lambda n=nsobj: n.LOGGING_.LEVEL, Option(f"{rootname}.LOGGING.LEVEL", 3)),
                        (f"{rootname}.LOGGING.FMT", lambda n=nsobj: n.LOGGING_.FMT, Option(f"{rootname}.LOGGING.FMT", "plain")),
                        (f"{rootname}.LOGGING.PATH", lambda n=nsobj: n.LOGGING_.PATH, Option(f"{rootname}.LOGGING.PATH", "{A}/x.csv"))]
                if rootname == "SERVICE_A":
                    out.append(("SERVICE_A.NAME", lambda n=nsobj: n.NAME, Option("SERVICE_A.NAME", "a")))
        return out

    def rec(name, *deps):
        """a dataset that records its execution in LOG and returns (name, *args)"""
        names = [f"a{i}" for i in range(len(deps))]
        src = f"def body({', '.join(f'{n}=deps[{i}]' for i, n in enumerate(names))}):\n    LOG.append(name)\n    return (name, {', '.join(names)}{',' if names else ''})"
        env = {"deps": deps, "LOG": LOG, "name": name}
        exec(src, env)
        return dataset(env["body"]).nocache if False else dataset.nocache(env["body"])

    NS = dict(locals())
    NS["labrea"] = labrea
    return NS


# recipes per class: python expressions over ns()
RECIPES = {
    "Namespace": ["mkns()"],
    "Value": ["Value(3)", "Value([1, {'a': 2}])"],
    "Apply": ["Option('A').apply(inc)", "Option('A') >> Option('FN', inc)", "Option('A', 1) >> pdiv", "Option('A', 1) >> bare", "Option('S.X') >> ident"],
    "Bind": ["Option('A').bind(pick)", "Option('A', 0).bind(pick)"],
    "Switch": ["switch(Option('A', 1), {1: rec('one'), 2: rec('two')}, rec('dflt'))","switch(Option('A'), {1: Option('X'), 2: Option('Y', 5)}, Option('Z'))", "switch(Option('A'), {1: Option('X')})",
               "switch(Option('A', 1), {1: Option('X'), True: Value(7)}, Value(9))", "switch('A', {1: ds(Option('X'))}, ds(Option('Z', 0)))",
               "switch(Option('A'), {None: Value('none-alias'), 1: Value(1)}, Value('dflt'))", "switch(Option('A'), {None: rec('none-alias'), False: rec('false-alias')}, rec('dflt'))"],
    "Overloaded": ["Overloaded(Option('A'), {1: Option('X')}, Option('Z'))", "Overloaded(Option('A'), {1: Option('X'), 2: Option('Y')})",
                   "Overloaded(Option('A'), {None: rec('none-alias'), 1: rec('one')}, rec('dflt'))", "Overloaded(Option('A'), {None: Value('none-alias'), 1: Option('X', 1)}, Value('dflt'))"],
    "CaseWhen": ["case(Option('A', 0)).when(F.is_in(rec('c1')), rec('r1')).when(F.is_in(rec('c2')), rec('r2')).otherwise(rec('r3'))",
                 "case(Option('A', 0)).when(lambda a: a == 1, rec('r1')).when(F.eq(rec('c2') >> (lambda t: 2)), rec('r2')).otherwise(rec('r3'))","case(Option('A')).when(F.eq(Option('T')), Option('X')).otherwise(Option('Z', 0))",
                 "case(Option('A')).when(lambda a: isinstance(a, int) and a > 1, 'big').when(F.eq(Option('T', 1)), Option('Y'))",
                 "case(Option('A', 0)).when(lambda a: a == 1, Option('X')).otherwise('small')"],
    "Coalesce": ["coalesce(rec('p', Option('A')), rec('q', Option('B', 1)), rec('r'))", "coalesce(Option('A'), Option('B'))", "coalesce(Option('A') >> pdiv, Option('B', 2))", "coalesce(Option('S.X'), Value(1))"],
    "Iter": ["Iter(Option('A'), Option('B', 2)).apply(list)", "Iter(Option('A')).apply(tuple)"],
    "EvaluatableArgs": ["EvaluatableArgs(Option('A'), Option('B', 2))", "(lambda it: EvaluatableArgs(it, it).apply(lambda t: [list(x) for x in t]))(Iter(Option('A'), Option('B', 2)))"],
    "EvaluatableKwargs": ["EvaluatableKwargs(a=Option('A'), b=Option('B', 2))"],
    "EvaluatableArguments": ["EvaluatableArguments(Option('A'), b=Option('B', 2))"],
    "FunctionApplication": ["FunctionApplication(pair, Option('A'), b=Option('B', 2))", "FunctionApplication(Option('FN', pair), Option('A'))",
                            "FunctionApplication(pdiv, Option('A', 1))", "(lambda it: FunctionApplication(both, it, it))(Iter(Option('A'), Option('B', 2)))",
                            "(lambda it: FunctionApplication(both, it, b=it))(Iter(Option('A')))"],
    "PartialApplication": ["PartialApplication(pair, b=Option('B', 2)) ", "Option('A') >> PartialApplication(pair, b=Option('B'))"],
    "PipelineStep": ["Option('A') >> F.add(Option('B', 1))"],
    "Pipeline": ["Option('A') >> (F.add(Option('B', 1)) + F.multiply(Option('T', 2)))", "Option('A') >> (Pipeline() + inc)",
                 "Option('A', 1) >> (F.add(Option('B')) + Identity + F.multiply(Option('T', 2)))", "Option('A', 1) >> (Identity + F.add(Option('B')) + Identity)", "Option('A', 1) >> (F.add(Option('B')) + (Pipeline() + Identity))",
                 "Option('A', 1) >> (Pipeline() + F.add(Option('B')))", "Option('A', 1) >> (F.add(Option('B')) + F.multiply(Option('T')))", "Option('A', 1) >> (F.add(Option('B')) + inc + F.multiply(Option('T', 2)))"],
    "Logged": ["Logged(Option('A'), 20, 'x', 'msg')"],
    "Computation": ["Computation(Option('A'), CallbackEffect(ident))"],
    "ChainedEffect": ["ds_eff(ident, F.add(Option('B')))", "ds_eff(F.add(Option('B')), ident)", "ds_eff(F.add(Option('B', 0)), F.add(Option('T')))"],
    "WithOptions": ["WithOptions(Option('A'), {'A': 1})", "WithOptions(Option('S'), {'S': {'X': 1}})", "WithDefaultOptions(Option('S.X'), {'S': {'X': 1}})",
                    "WithDefaultOptions(Option('A', 5), {'A': 2})", "WithDefaultOptions(Option('A') >> repr, {'A': 1})", "WithOptions(ds(Option('A'), Option('S.Y', 0)), {'S': {'X': 1}})"],
    "Cached": ["cached(Option('A'))", "cached(ds(Option('A'), Option('B', 2)))", "cached(switch(Option('A'), {1: Option('X')}, Option('Z', 3)))"],
    "Option": ["Option('A', rec('dflt'))","Option('A')", "Option('A', 5)", "Option('S.X', Option('B'))", "Option('A', '{B}')", "Option('A', domain=[1, 2])",
               "Option('A', 1, domain=Option('DOM', [1, 2]))", "Option('L.0')", "Option('A', domain=lambda t: {2: True}[t])",
               "Option('A', 7, domain=lambda t: {2: True, 7: True}[t])"],
    "Template": ["Template('inputs={S}')", "Template('{L}')", "Template('{A}-{S.X}')", "Template('{A} {:p:}', p=Option('B', 2))", "Template('{:p:}', p=Value('{NOPE}'))", "Template('{:p:}-{A}', p=Value({'x': 1}))", "Template('{:p:}', p=Option('B') >> ident)", "Template('{:l:}A{:r:}', l=Value('{'), r=Value('}'))", "Template('{A}', q=Option('B'))", "Template('{B}-{:B:}', B=Option('A'))",
                 "Template('{A}-{:p:}', p=WithOptions(Option('A'), {'ROOT': 1}))", "Template('{A}/{:p:}', p=WithOptions(Option('A'), {'B': 'inner'}))", "Template('{:p:}', p=Value('a\\\\{b'))"],
    "_AllOptions": ["AllOptions"],
    "Dataset": ["ds(Option('A'), Option('AB', 0), Option('A_DECAY', 1))","ds(Option('A'), Option('B', 2))", "ds(Option('A'), options={'B': 1})", "ds(ds(Option('A')), Option('S.X', 0), default_options={'S': {'X': 4}})",
                "ds(Option('A'), Option('S.B', 0), Option('S.C', 'c-fallback'), default_options={'S': {'B': 2, 'C': 3}, 'T': 5})",
                "ds(Option('A'), Option('B', 0), options={'X': 1}, default_options={'B': 3})",
                "ds(Option('S.X', 0), Option('S.Y', 1), Option('S.A', 2), options={'S': {'Y': 5}})", "ds(Option('S.X', 0), Option('S.A', 2), Option('T', 3), options={'S': {'X': 5}, 'T': 0}, default_options={'S': {'A': 1}})"],
    "Map": ["Map(Option('S.X'), {'S.X': Option('XS')}).apply(list)", "Map(ds(Option('S.X'), Option('S.Y', 0)), {'S.X': [1, 2], 'S.Y': Option('XS')}).apply(list)","Map(switch(Option('K'), {'x': Option('X'), 'y': Option('Y')}), {'K': Option('KINDS')}).apply(list)","Map(Option('A'), {'A': Option('XS')}).apply(list)", "Map(ds(Option('A'), Option('B', 0)), {'A': Option('A'), 'B': Option('Y')}).apply(list)", "Map(Option('A'), {'A': Option('A')}).apply(list)", "Map(ds(Option('A'), Option('B', 0)), {'A': Option('XS'), 'B': [1, 2]}).apply(list)"],
}

# user code that raises (law L6u): {T} ranges over USER_EXC; every position in which a user callable runs and a failure is not absorbed by design
USER_EXC = ["StopIteration", "KeyError", "ValueError", "TypeError", "AttributeError", "AssertionError", "LookupError", "IndexError", "RuntimeError", "ZeroDivisionError",
            "OSError", "StopAsyncIteration", "ArithmeticError", "NotImplementedError", "UserDefinedError"]
USER_RECIPES = ["case(Option('A', 0)).when(raiser({T!r}), 'r1').when(lambda a: True, 'r2').otherwise('d')",
                "case(Option('A', 0)).when(lambda a: False, 'r0').when(raiser({T!r}), 'r1').otherwise('d')",
                "case(Option('A', 0)).when(raiser({T!r}), 'r1')",
                "case(Option('A', 0)).when(raiser({T!r}, lambda a: a == 1), 'r1').when(raiser({T!r}, lambda a: a == 2), 'r2').otherwise('d')",
                "case(Option('A', 0) >> raiser({T!r})).when(lambda a: True, 'r1').otherwise('d')",
                "Option('A', 1).apply(raiser({T!r}))", "Option('A', 1).bind(raiser({T!r}))", "FunctionApplication(raiser({T!r}), Option('A', 1))",
                "Option('A', 1) >> PipelineStep(Value(raiser({T!r})), 's')", "Option('A', 1) >> (Pipeline() + inc + raiser({T!r}))", "Iter(Option('A', 1), Option('B', 2)) >> F.map(raiser({T!r})) >> list",
                "Iter(Option('A', 1) >> raiser({T!r}), Option('B', 2)).apply(list)", "Map(Option('X') >> raiser({T!r}), {'X': [1, 2]}).apply(list)",
                "ds_body(raiser({T!r}), Option('A', 1))", "ds_body(ident, Option('A', 1) >> raiser({T!r}))", "ds_eff(raiser({T!r}))", "dataset(lambda a=Option('A', 1): a, callback=raiser({T!r}))",
                "cached(Option('A', 1) >> raiser({T!r}))", "WithOptions(Option('A', 1) >> raiser({T!r}), {'B': 1})", "Template('{:p:}', p=Option('A', 1) >> raiser({T!r}))",
                "Overloaded(Option('A', 1), {1: Option('B', 2) >> raiser({T!r})})", "switch(Option('A', 1), {1: Option('B', 2) >> raiser({T!r})}, 'dflt')",
                "Option('Q', Option('A', 1) >> raiser({T!r}))", "Option('A', 1, domain=raiser({T!r}))", "EvaluatableArguments(Option('A', 1) >> raiser({T!r}), b=Option('B', 2))"]

VALUES = [1, 2, 0, None, "{B}", [1, 2], {"X": 1}, True]
KEYS = ["A", "B", "T", "X", "Y", "Z", "S", "FN", "DOM", "XS", "L"]


def dict_universe(rnd, n):
    out = [{}, {"A": 1}, {"A": 2, "B": 3}, {"A": 1, "X": 5, "Z": 9}, {"A": 1, "T": 0, "X": 4, "Y": 6, "Z": 7},
           {"S": {"X": 1, "Y": 2}}, {"A": "{B}", "B": 2}, {"A": "{B}", "B": "outer"}, {"A": "{NOPE}"}, {"A": "{ROOT}/data"}, {"A": "{ROOT}/data", "ROOT": "/r"}, {"A": 0}, {"A": None, "Z": 1}, {"A": 3, "S": {"X": 2}, "B": 1},
           {"A": 1, "S": 5}, {"XS": [1, 2], "B": 1}, {"A": 1, "AB": 2, "A_DECAY": 3}, {"S": {"X": ["{ROOT}/a.csv"]}}, {"L": [{"p": "{ROOT}"}], "A": 1}, {"S": {"X": ["{A}/a.csv"]}, "A": 1}, {"LOGGING": {"LEVEL": 0, "KEEP": 2}, "SERVICE_A": {"LOGGING": {"LEVEL": 5}}, "SERVICE_B": {"LOGGING": {"LEVEL": 0}}},
           {"SERVICE_A": {"LOGGING": {"LEVEL": 9}}, "LOGGING": {"KEEP": 1}}, {"SERVICE_B": {"LOGGING": {"FMT": ""}}}, {"TOP": {"MID": {"INNER": {"X": 0}, "M": None}}}, {"TOP": {"MID": {"INNER": {"X": "set"}}}}, {"KINDS": ["x", "y"], "X": 1, "Y": 2}, {"KINDS": ["y"], "Y": 2}, {"KINDS": ["x", "y"], "X": 1}, {"KINDS": ["y", "x"], "Y": 2}, {"L": [7, 8]}, {"A": 1, "DOM": [1, 2]}, {"A": 3, "DOM": [1, 2]}]
    for _ in range(n):
        d = {}
        for k in rnd.sample(KEYS, rnd.randint(0, 5)):
            if k == "S":
                d[k] = rnd.choice([{"X": rnd.choice([1, 2])}, {"X": 1, "Y": rnd.choice([2, 3])}, {"Y": 2}, 5])
            elif k == "XS":
                d[k] = rnd.choice([[1], [1, 2], []])
            elif k == "L":
                d[k] = [rnd.choice([1, 2])]
            elif k == "DOM":
                d[k] = [1, 2]
            elif k == "FN":
                continue
            else:
                d[k] = rnd.choice([1, 2, 0, None, True] + (["{B}"] if k != "B" else []))
        out.append(d)
    return out


def outcome(f):
    from labrea.exceptions import EvaluationError
    try:
        v = f()
        if hasattr(v, "__iter__") and not isinstance(v, (list, tuple, dict, set, str, bytes)):
            v = list(v)
        return ("ok", v)
    except Exception as e:  # noqa
        return ("err", e)


def origin(e):
    while e.__cause__ is not None:
        e = e.__cause__
    return e


def case_str(e):
    return repr(getattr(e, "domain", ""))


def _overlap(a, b):
    if not isinstance(a, dict) or not isinstance(b, dict):
        return True
    return any(k in b and _overlap(a[k], b[k]) for k in a)


def chain(e):
    while e is not None:
        yield e
        e = e.__cause__


def missing_key(e):
    """the key of the innermost KeyNotFoundError of the cause chain"""
    from labrea.exceptions import KeyNotFoundError
    k = None
    for x in chain(e):
        if isinstance(x, KeyNotFoundError):
            k = x.key
    return k


def is_missing(e):
    from labrea.exceptions import KeyNotFoundError
    return any(isinstance(x, KeyNotFoundError) for x in chain(e))


def present(o, k):
    from confectioner.templating import dotted_key_exists
    if not isinstance(k, str):
        return False
    try:
        return dotted_key_exists(k, o)
    except TypeError:
        return False


def restrict(o, keys):
    from confectioner.templating import get_dotted_key, set_dotted_key
    r = {}
    for k in sorted(keys):
        if present(o, k):
            _set(r, k, copy.deepcopy(get_dotted_key(k, o)), o)
    return r


def _set(r, dotted, val, o):
    """set_dotted_key that creates lists where the original has lists"""
    from confectioner.templating import set_dotted_key
    if any(p.isdigit() for p in dotted.split(".")):
        # keep list-indexed keys by copying the whole top-level subtree
        top = dotted.split(".")[0]
        r[top] = copy.deepcopy(o[top])
        return
    set_dotted_key(dotted, val, r)


def same(a, b):
    if a[0] != b[0]:
        return False
    if a[0] == "ok":
        try:
            return a[1] == b[1] or (callable(a[1]) and callable(b[1]))
        except Exception:  # noqa
            return True
    return True


def strict_eq(a, b):
    """equal AND of the same types throughout (0 / 0.0 / False and 1 / 1.0 / True are different values)"""
    if callable(a) and callable(b):
        return True
    if type(a) is not type(b):
        return False
    try:
        if isinstance(a, (list, tuple)):
            return len(a) == len(b) and all(strict_eq(x, y) for x, y in zip(a, b))
        if isinstance(a, dict):
            return len(a) == len(b) and all(any(strict_eq(k, k2) and strict_eq(v, b[k2]) for k2 in b) for k, v in a.items())
        if isinstance(a, (set, frozenset)):
            return len(a) == len(b) and all(any(strict_eq(x, y) for y in b) for x in a)
        return a == b
    except Exception:  # noqa
        return True


def strict_same(a, b):
    if a[0] != b[0]:
        return False
    return strict_eq(a[1], b[1]) if a[0] == "ok" else True


HS_CONSTS = [0, 0.0, False, 1, 1.0, True, "", None, 2, 2.0, "a"]
# classes whose instances hold no declared store (no cache, no dispatch table): two evaluations of ONE instance are independent
HS_CLASSES = ["Value", "Option", "Apply", "Bind", "Switch", "CaseWhen", "Coalesce", "Iter", "EvaluatableArgs", "EvaluatableKwargs", "EvaluatableArguments",
              "FunctionApplication", "PartialApplication", "PipelineStep", "Pipeline", "Template", "WithOptions"]
HS_EXTRA = ["Option('A', domain=lambda t: type(t) is int and t in (1, 2))", "Option('A', domain=Option('DOM'))", "Option('A', 1, domain=Option('DOM', [1]))",
            "switch(Option('A'), {1: 0, 2: 0.0}, False)", "Iter(1.0, 0, True, 1, False, 0.0).apply(list)", "coalesce(Option('A'), 0)", "Option('A', 1.0)", "Option('B', True)"]


def _type_variant(v):
    if v is True:
        return 1
    if v is False:
        return 0
    if isinstance(v, int):
        return {0: False, 1: True}.get(v, float(v))
    if isinstance(v, float) and v == int(v):
        return int(v)
    return v


def hs_warmups(o):
    """dictionaries the same instance is evaluated with BEFORE o: equal-but-differently-typed values, another value, a domain that admits / rejects"""
    out = [copy.deepcopy(o)]
    for k, v in o.items():
        if isinstance(v, (bool, int, float)):
            w = copy.deepcopy(o)
            w[k] = _type_variant(v)
            out.append(w)
            w = copy.deepcopy(o)
            w[k] = 2 if v == 1 else 1
            out.append(w)
    if "A" in o and not isinstance(o["A"], (dict, list)):
        w = copy.deepcopy(o)
        w["DOM"] = [o["A"]]
        out.append(w)
    if "DOM" in o:
        w = copy.deepcopy(o)
        w["DOM"] = [99]
        out.append(w)
    return out


def check_law(law, expr, o, fresh):
    """returns None or a message. `fresh()` builds a new instance of the expression (cold caches)."""
    from labrea.exceptions import EvaluationError, InsufficientInformationError
    if law == "HS":
        # no hidden state: what an instance returns for o does not depend on what it (or anything else) was evaluated with before
        if expr.startswith("CONST:"):
            from labrea.types import Evaluatable
            order = HS_CONSTS if o.get("rev") is None else HS_CONSTS[::-1]
            for c in order:
                got = outcome(lambda: Evaluatable.ensure(c).evaluate({}))
                if not strict_same(got, ("ok", c)):
                    return f"the constant {c!r} evaluates to {got[1]!r} (of {type(got[1]).__name__}) after the constants {order[:order.index(c)]!r} were wrapped"
            return None
        want = outcome(lambda: fresh()(copy.deepcopy(o)))
        for w in hs_warmups(o):
            e = fresh()
            if not hasattr(e, "evaluate"):
                return None
            outcome(lambda: e(copy.deepcopy(w)))
            got = outcome(lambda: e(copy.deepcopy(o)))
            if not strict_same(got, want) or (got[0] == "err" and type(origin(got[1])) is not type(origin(want[1]))):
                shown = lambda r: r if r[0] == "ok" else ("err", repr(r[1])[:100])   # noqa
                return f"after one evaluation with {w!r} the same instance gives {shown(got)!r} for {o!r}; a fresh instance gives {shown(want)!r}"
        return None
    e = fresh()
    if law != "C04" and not hasattr(e, "evaluate"):
        return None
    if law in ("L1", "L2"):
        ks = outcome(lambda: e.keys(copy.deepcopy(o)))
        if ks[0] != "ok":
            return None
        S = set(ks[1])
        if law == "L1":
            bad = [k for k in S if not present(o, k)]
            return f"keys {sorted(S)} reports {bad} which are not present" if bad else None
        o2 = restrict(o, S)
        k2 = outcome(lambda: fresh().keys(copy.deepcopy(o2)))
        if k2[0] != "ok" or set(k2[1]) != S:
            return f"keys on the restriction {o2} = {k2} but keys on the original = {sorted(S)}"
        a, b = outcome(lambda: fresh()(copy.deepcopy(o))), outcome(lambda: fresh()(copy.deepcopy(o2)))
        if not same(a, b):
            return f"evaluate on the original gives {a!r}, on the restriction {o2} gives {b!r} (keys {sorted(S)})"
        return None
    if law == "L3":
        ks = outcome(lambda: e.keys(copy.deepcopy(o)))
        ev = outcome(lambda: fresh()(copy.deepcopy(o)))
        if ks[0] == "err" and ev[0] == "ok":
            return f"keys fails ({ks[1]!r}) but evaluate succeeds with {ev[1]!r}"
        return None
    if law == "L4a":
        v = outcome(lambda: e.validate(copy.deepcopy(o)))
        ev = outcome(lambda: fresh()(copy.deepcopy(o)))
        if v[0] == "ok" and ev[0] == "err" and is_missing(ev[1]):
            return f"validate passes but evaluate fails for a missing option: {origin(ev[1])!r}"
        return None
    if law == "L4t":
        v = outcome(lambda: e.validate(copy.deepcopy(o)))
        ev = outcome(lambda: fresh()(copy.deepcopy(o)))
        ks = outcome(lambda: fresh().keys(copy.deepcopy(o)))
        if ev[0] == "err" and not is_missing(ev[1]):
            return None          # a body that is not total on this input: outside the law's hypothesis (A-total)
        if len({v[0], ev[0], ks[0]}) != 1:
            return f"validate/evaluate/keys disagree: {v[0]}/{ev[0]}/{ks[0]}"
        return None
    if law in ("L5", "L5b", "L5d", "L6v"):
        x = outcome(lambda: e.explain(copy.deepcopy(o)))
        v = outcome(lambda: fresh().validate(copy.deepcopy(o)))
        ks = outcome(lambda: fresh().keys(copy.deepcopy(o)))
        if x[0] == "err":
            if law == "L6v" and not isinstance(x[1], InsufficientInformationError):
                return f"explain fails with {x[1]!r}, not InsufficientInformationError"
            if law == "L5d" and v[0] == "ok":
                return f"validate passes but explain fails: {x[1]!r}"
            return None
        X = set(x[1])
        absent = {k for k in X if not present(o, k)}
        if law == "L5":
            if ks[0] == "ok" and not set(ks[1]) <= X:
                return f"explain {sorted(X)} does not cover keys {sorted(ks[1])}"
            if not absent and v[0] == "err" and is_missing(v[1]):
                return f"explain {sorted(X)} lists nothing absent but validate fails for missing {origin(v[1])!r}"
            if v[0] == "err" and is_missing(v[1]) and missing_key(v[1]) not in absent:
                return f"validate names missing key {missing_key(v[1])!r} which explain {sorted(X)} does not list as absent"
        if law == "L5b" and absent and v[0] == "ok":
            return f"explain lists absent {sorted(absent)} but validate passes"
        return None
    if law == "C05":
        from .reference import ref_outcome
        got = outcome(lambda: e(copy.deepcopy(o)))
        want = ref_outcome(fresh(), o)
        if want[0] == "unknown":
            return None
        if got[0] != want[0] or (got[0] == "ok" and not strict_same(got, want)):
            shown = got if got[0] == "ok" else ("err", repr(got[1])[:120])
            return f"evaluate gives {shown!r}; the eager computation gives {want!r}"
        return None
    if law == "FP":
        ks = outcome(lambda: e.keys(copy.deepcopy(o)))
        if ks[0] != "ok":
            return None
        fp = outcome(lambda: e.fingerprint(copy.deepcopy(o)))
        if fp[0] != "ok":
            return f"keys succeeds but fingerprint fails: {fp[1]!r}"
        from confectioner.templating import get_dotted_key, set_dotted_key
        for k in sorted(ks[1]):
            o2 = copy.deepcopy(o)
            cur = get_dotted_key(k, o2)
            new = (cur + 1) if isinstance(cur, (int, float)) and not isinstance(cur, bool) else "changed"
            if any(p.isdigit() for p in k.split(".")):
                continue
            set_dotted_key(k, new, o2)
            k2 = outcome(lambda: fresh().keys(copy.deepcopy(o2)))
            if k2[0] == "ok" and set(k2[1]) == set(ks[1]):
                f2 = outcome(lambda: fresh().fingerprint(copy.deepcopy(o2)))
                if f2[0] == "ok" and f2[1] == fp[1]:
                    return f"the value under the reported key {k!r} differs ({cur!r} vs {new!r}) but the fingerprints are identical: {fp[1]!r}"
        # the same dictionary OBJECT changed in place between two calls: the second fingerprint is that of its new contents
        for k in sorted(ks[1]):
            if any(p.isdigit() for p in k.split(".")):
                continue
            inst = fresh()
            live = copy.deepcopy(o)
            f_before = outcome(lambda: inst.fingerprint(live))
            cur = get_dotted_key(k, live)
            set_dotted_key(k, (cur + 1) if isinstance(cur, (int, float)) and not isinstance(cur, bool) else "changed", live)
            f_after = outcome(lambda: inst.fingerprint(live))
            f_fresh = outcome(lambda: fresh().fingerprint(copy.deepcopy(live)))
            if f_before[0] == f_after[0] == f_fresh[0] == "ok" and f_after[1] != f_fresh[1]:
                return f"after the caller changed {k!r} in place the fingerprint is still {f_after[1]!r}; an equal fresh dictionary gives {f_fresh[1]!r}"
            break
        o3 = copy.deepcopy(o)
        o3["NEVER_MENTIONED"] = 1
        k3 = outcome(lambda: fresh().keys(copy.deepcopy(o3)))
        if k3[0] == "ok" and set(k3[1]) == set(ks[1]):
            f3 = outcome(lambda: fresh().fingerprint(o3))
            if f3[0] == "ok" and f3[1] != fp[1]:
                return f"a key nothing refers to changes the fingerprint: {fp[1]!r} vs {f3[1]!r}"
        return None
    if law == "C04":
        from .reference import ref_outcome
        n = type(e).__name__
        if n == "Option":
            got, want = outcome(lambda: e(copy.deepcopy(o))), ref_outcome(fresh(), o)
            if want[0] != "unknown" and (got[0] != want[0] or (got[0] == "ok" and not strict_same(got, want))):
                return f"Option gives {got if got[0] == 'ok' else ('err', repr(got[1])[:100])!r}; independent lookup gives {want!r}"
            v = 7
            snap = copy.deepcopy(o)
            r = outcome(lambda: e.set(o, v))
            if r[0] == "ok":
                if o != snap:
                    return "Option.set modified its input dictionary"
                back = outcome(lambda: fresh()(r[1]))
                from labrea._missing import MISSING as _M
                if back != ("ok", v) and e.domain is _M and not any(part.isdigit() for part in e.key.split(".")):   # F27: list-indexed keys
                    return f"after Option.set(o, {v}) the option evaluates to {back!r}"
            return None
        if n == "Namespace" or (n == "dict" and e and all(type(x).__name__ == "Namespace" for x in e.values())):
            from labrea import Option as Opt
            # every member, reached through every mount point, behaves like the fully qualified Option
            for path, member, fq in ns()["NSPATHS"](e):
                for _ in range(2):
                    got = outcome(lambda: member()(copy.deepcopy(o)))
                    want = outcome(lambda: fq(copy.deepcopy(o)))
                    if not same(got, want) or (got[0] == "err") != (want[0] == "err"):
                        return f"namespace member {path} gives {got!r}; the fully qualified Option gives {want!r}"
            return None
        return None
    if law == "C06":
        from .reference import ref_outcome
        log = ns()["LOG"]
        del log[:]
        got = outcome(lambda: fresh()(copy.deepcopy(o)))
        ran = list(log)
        del log[:]
        want = ref_outcome(fresh(), o)
        needed = set(log)
        del log[:]
        if want[0] == "unknown":
            return None
        extra = [x for x in ran if x not in needed]
        if extra:
            return f"bodies {extra} ran although the selected path does not need them (ran {ran}; needed {sorted(needed)})"
        return None
    if law == "C08":
        from confectioner import mix
        n = type(e).__name__
        snap = copy.deepcopy(o)
        if n == "WithOptions":
            P0 = copy.deepcopy(e.options)
            got = outcome(lambda: e(o))
            want = outcome(lambda: fresh().evaluatable(mix(copy.deepcopy(o), P0) if e.force else mix(P0, copy.deepcopy(o))))
            if not same(got, want):
                return f"wrapper gives {got!r}; the wrapped expression under the overlaid dictionary gives {want!r}"
            if o != snap or e.options != P0:
                return "an input dictionary was modified"
            return None
        if n == "Dataset":
            for Q in ({"B": 7}, {"S": {"A": 9}}, {"S": {"X": 8}, "T": 1}, {"A": 4}):
                own, dfl = copy.deepcopy(e.options), copy.deepcopy(e.default_options)
                if any(_shadowed(x, y) for x in (o, Q, own, dfl) for y in (o, Q, own, dfl)):
                    continue      # F24: a scalar where another dictionary holds a section (mix is not associative there)
                if not _overlap(Q, own):      # F20: precedence between own pre-set options and the derivative's is a recorded finding
                    got = outcome(lambda: fresh().with_options(copy.deepcopy(Q))(copy.deepcopy(o)))
                    want = outcome(lambda: fresh()(mix(copy.deepcopy(o), copy.deepcopy(Q))))
                    if not same(got, want):
                        return f"with_options({Q}) gives {got!r}; the dataset under o overlaid by it gives {want!r}"
                got = outcome(lambda: fresh().with_default_options(copy.deepcopy(Q))(copy.deepcopy(o)))
                want = outcome(lambda: fresh()(mix(copy.deepcopy(Q), copy.deepcopy(o))))
                if not same(got, want):
                    return f"with_default_options({Q}) gives {got!r}; the dataset under the defaults overlaid by o gives {want!r}"
                for how in ("with_options", "with_default_options"):
                    d2 = fresh()
                    before = outcome(lambda: d2(copy.deepcopy(o)))
                    Q2 = copy.deepcopy(Q)
                    getattr(d2, how)(Q2)
                    if d2.options != own or d2.default_options != dfl:
                        return f"{how}({Q}) modified the pre-set / default options of the dataset it derives from: {d2.options!r} / {d2.default_options!r}"
                    if Q2 != Q:
                        return f"{how}({Q}) modified the dictionary it was given: {Q2!r}"
                    after = outcome(lambda: fresh()(copy.deepcopy(o)))
                    again = outcome(lambda: d2(copy.deepcopy(o)))
                    if not same(again, after):
                        return f"after deriving a dataset with {how}({Q}) the original evaluates to {again!r}; a fresh one gives {after!r}"
            return None
        return None
    if law == "L6k":
        for what, r in (("evaluate", outcome(lambda: e(copy.deepcopy(o)))), ("validate", outcome(lambda: fresh().validate(copy.deepcopy(o)))),
                        ("keys", outcome(lambda: fresh().keys(copy.deepcopy(o))))):
            if r[0] == "err" and is_missing(r[1]):
                mk = missing_key(r[1])
                if not isinstance(mk, str) or present(o, mk):
                    return f"{what} fails for a missing option but names {mk!r}, which is present in {o}"
        return None
    if law == "L6u":
        # user code that raises: the failure surfaces as an EvaluationError whose source is e and whose cause chain reaches THE exception raised
        raised = ns()["RAISED"]
        del raised[:]
        ev = outcome(lambda: e(copy.deepcopy(o)))
        mine = list(raised)
        del raised[:]
        if not mine:
            return None           # the raising callable did not run on this input
        if ev[0] == "ok":
            return f"user code raised {mine[0]!r} during the evaluation, which returned {ev[1]!r} as if nothing had failed"
        x = ev[1]
        if not isinstance(x, EvaluationError):
            return f"evaluate raised {x!r}, not an EvaluationError"
        if x.source is not e:
            return f"EvaluationError.source is {x.source!r}, not the object evaluate() was called on"
        ch = list(chain(x))
        if not any(y is m for y in ch for m in mine):
            return f"user code raised {mine[0]!r} but the cause chain of the reported error never reaches it: {[type(y).__name__ for y in ch]}"
        return None
    if law == "L6":
        ev = outcome(lambda: e(copy.deepcopy(o)))
        if ev[0] == "err":
            x = ev[1]
            if not isinstance(x, EvaluationError):
                return f"evaluate raised {x!r}, not an EvaluationError"
            if x.source is not e:
                return f"EvaluationError.source is {x.source!r}, not the object evaluate() was called on"
            from labrea.exceptions import KeyNotFoundError
            for y in chain(x):
                if isinstance(y, KeyNotFoundError) and type(e).__name__ == "Option" and present(o, y.key) and y.key == e.key:
                    return f"option {y.key!r} is supplied ({o}) but reported as a missing option: {y!r}"
                if isinstance(y, KeyNotFoundError) and type(e).__name__ == "Option" and y.__cause__ is not None and not isinstance(y.__cause__, KeyNotFoundError) \
                        and isinstance(y.__cause__, KeyError) and present(o, e.key) and not (isinstance(y.key, str) and ("{" + y.key + "}") in json.dumps(o)):
                    return f"a KeyError raised by user code was reported as the missing option {y.key!r}: {y!r}"
        return None
    return None


LAW_OF_GROUP = {"L1": ["L1"], "L2": ["L2"], "L3": ["L3"], "L4a": ["L4a"], "L4t": ["L4t"], "L5": ["L5"], "L5b": ["L5b"], "L5d": ["L5d"],
                "L6": ["L6", "L6u"], "L6u": ["L6u"], "L6k": ["L6k"], "L6v": ["L6v"], "spec": ["L4a", "L5", "L5d", "L6v"], "C05": ["C05"], "C08": ["C08"], "FP": ["FP"], "fingerprint": ["FP"], "soundness": ["FP"], "C04": ["C04"], "HS": ["HS"], "C06": ["C06"], "C06c": ["C06"], "with_options": ["C08"], "with_default_options": ["C08"], "tower": ["C08", "C05"]}


def build(recipe):
    return eval(recipe, ns())


def replay(case):
    msg = check_law(case["law"], case["recipe"], case["options"], lambda: build(case["recipe"]))
    return msg is not None, f"law {case['law']} on {case['recipe']} with options {case['options']}: {msg or 'holds'}"


def _walk(e, depth=0):
    yield e
    if depth > 4 or type(e).__name__ in ("Map",):
        return      # below a Map the options differ per iteration: no region of the recorded findings is claimed there
    for name in ("evaluatable", "overloads", "switch"):
        try:
            c = getattr(e, name, None)
        except Exception:  # noqa
            c = None
        if c is not None and hasattr(c, "evaluate"):
            yield from _walk(c, depth + 1)
    if type(e).__name__ == "Dataset":
        try:
            yield from _walk(e._composed, depth + 1)
        except Exception:  # noqa
            pass


def _shadowed(o, d, prefix=""):
    """some key of the (default / pre-set) dictionary d lies below a scalar of o, or vice versa"""
    if not isinstance(d, dict) or not isinstance(o, dict):
        return False
    for k, v in d.items():
        if k in o:
            if isinstance(v, dict) != isinstance(o[k], dict):
                return True
            if isinstance(v, dict) and _shadowed(o[k], v):
                return True
    return False


def _section_in_text(root, o):
    """F28: a {KEY} embedded in longer text whose value is a section (or holds one): str() of it contains braces, which confectioner.resolve
    then takes for template keys"""
    import re
    from confectioner.templating import get_dotted_key
    texts = []
    for e in _walk(root):
        if type(e).__name__ == "Template":
            texts.append(e.template)
        if type(e).__name__ == "Option" and type(getattr(e, "default", None)).__name__ == "Template":
            texts.append(e.default.template)
    def strings(v):
        if isinstance(v, str):
            yield v
        elif isinstance(v, dict):
            for x in v.values():
                yield from strings(x)
        elif isinstance(v, list):
            for x in v:
                yield from strings(x)
    texts += list(strings(o))
    for t in texts:
        for k in re.findall(r"(?<!\\){([^\\]*?)}", t):
            if t != "{" + k + "}" and present(o, k) and "{" in str(get_dotted_key(k, o)):
                return True
    return False


def known_region(recipe, o, law):
    """recorded findings (known_findings.json): inputs inside their regions are not reported again"""
    if law in ("C05", "C08", "C06", "C04", "FP"):
        return False
    try:
        root = build(recipe)
    except Exception:  # noqa
        return False
    if _section_in_text(root, o):
        return "F28"
    S = None
    for e in _walk(root):
        n = type(e).__name__
        if n in ("Switch", "Overloaded"):            # F18: the dispatch cannot be evaluated (fallback to the default)
            d = e.dispatch
            if outcome(lambda: d(copy.deepcopy(o)))[0] == "err":
                return "F18"
        if n == "Coalesce":                           # F19/F10/F21: a member fails, or validates but cannot be evaluated
            for m in e.members:
                v, ev = outcome(lambda: m.validate(copy.deepcopy(o))), outcome(lambda: m(copy.deepcopy(o)))
                if v[0] == "err" or ev[0] == "err":
                    return "F19"
        if n == "WithOptions" and _shadowed(o, e.options):   # F24
            return "F24"
        if n == "Dataset" and (_shadowed(o, e.options) or _shadowed(o, e.default_options)):
            return "F24"
        if n == "Computation":                        # F15: effects whose outcome depends on the options (their keys are not reported)
            return "F15" if law in ("L2",) or (law == "L4a" and not recipe.startswith("ds_eff(")) else False
    return False


def hidden_state_search(seed=0, budget=25):
    """witness search for the frame obligations (<Class>:frame, <module>:globals-frame): one instance evaluated twice, constants of equal value and different type"""
    for rev in (None, 1):
        case = {"law": "HS", "recipe": "CONST:", "options": {"rev": rev} if rev else {}, "class": "Value"}
        msg = check_law("HS", "CONST:", case["options"], None)
        if msg:
            return {"module": "harness.lawsearch", "case": case, "message": msg}
    rnd = random.Random(seed)
    ds_ = dict_universe(rnd, budget) + [{"A": True}, {"A": 1.0, "B": 1}, {"A": 2.0}, {"A": 1, "DOM": [2]}, {"A": False, "B": 0}]
    for cls in ["HS_EXTRA"] + HS_CLASSES:
        for recipe in (HS_EXTRA if cls == "HS_EXTRA" else RECIPES.get(cls, [])):
            if "cached(" in recipe or "ds(" in recipe or "ds_eff(" in recipe or "rec(" in recipe:
                continue
            for o in ds_:
                try:
                    msg = check_law("HS", recipe, o, lambda: build(recipe))
                except Exception:  # noqa
                    continue
                if msg:
                    return {"module": "harness.lawsearch", "case": {"law": "HS", "recipe": recipe, "options": json.loads(json.dumps(o)), "class": cls}, "message": msg}
    return None


def user_exception_search(seed=0, budget=6):
    """law L6u over USER_RECIPES x USER_EXC x a few dictionaries"""
    rnd = random.Random(seed)
    ds_ = [{}, {"A": 1}, {"A": 2, "B": 3}, {"A": 0}] + dict_universe(rnd, 0)[4:4 + budget]
    n = 0
    for recipe_t in USER_RECIPES:
        for T_ in USER_EXC:
            recipe = recipe_t.replace("{T!r}", repr(T_))
            if T_ == "StopIteration" and "F.map(" in recipe:
                continue          # python's own list(map(f, xs)) ends quietly when f raises StopIteration: the documented operation does the same
            for o in ds_:
                n += 1
                try:
                    msg = check_law("L6u", recipe, o, lambda: build(recipe))
                except Exception:  # noqa
                    continue
                if msg:
                    return {"module": "harness.lawsearch", "case": {"law": "L6u", "recipe": recipe, "options": json.loads(json.dumps(o)), "class": "user-code"}, "message": msg}, n
    return None, n


def search(cls, law, seed=0, budget=300, known=()):
    """known: predicates (recipe, options, message) -> bool that recognise recorded findings (skipped)"""
    rnd = random.Random(seed)
    recipes = RECIPES.get(cls, [])
    if not recipes:
        return None
    ds_ = dict_universe(rnd, budget)
    for recipe in recipes:
        for o in ds_:
            for lw in LAW_OF_GROUP.get(law, []):
                try:
                    msg = check_law(lw, recipe, o, lambda: build(recipe))
                except Exception as e:  # noqa  (harness trouble is never a violation)
                    continue
                if msg and known_region(recipe, o, lw):
                    continue
                if msg and not any(k(recipe, o, msg) for k in known):
                    return {"module": "harness.lawsearch", "case": {"law": lw, "recipe": recipe, "options": json.loads(json.dumps(o)), "class": cls}, "message": msg}
    return None
