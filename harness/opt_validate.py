"""Bounded validation of the assumed option-dictionary theory (pyvc/theory.py: opt_axioms, agree/restrict lemmas) against the REAL
confectioner: every clause is evaluated with has/get/mix/... interpreted by the real functions over small JSON trees.
This validates ASSUMPTIONS (never counted as proof); a failing clause blocks every proof that uses it."""
from __future__ import annotations

import copy
import itertools
import random

from confectioner import mix
from confectioner.templating import get_dotted_key, set_dotted_key

NAMES = ("a", "b")
LEAVES = (0, "s", [1], None)


def trees(depth):
    """all dicts over NAMES with leaves LEAVES / sub-dicts up to `depth`"""
    if depth == 0:
        return [{}]
    subs = trees(depth - 1)
    opts = [("absent",)] + [("leaf", l) for l in LEAVES] + [("dict", s) for s in subs]
    out = []
    for combo in itertools.product(opts, repeat=len(NAMES)):
        d = {}
        for n, c in zip(NAMES, combo):
            if c[0] == "leaf":
                d[n] = copy.deepcopy(c[1])
            elif c[0] == "dict":
                d[n] = copy.deepcopy(c[1])
        out.append(d)
    return out


def all_keys(depth):
    ks = []
    for n in range(1, depth + 1):
        for combo in itertools.product(NAMES, repeat=n):
            ks.append(".".join(combo))
    return ks


def has(o, k):
    try:
        get_dotted_key(k, o)
        return True
    except (KeyError, TypeError):
        return False


def get(o, k):
    return get_dotted_key(k, o)


def blocked(o, k):
    try:
        get_dotted_key(k, o)
    except TypeError:
        return True
    except KeyError:
        return False
    return False


def anc(p, k):
    return k.startswith(p + ".")


def prefixes(k):
    parts = k.split(".")
    return [".".join(parts[:i]) for i in range(1, len(parts))]


def shadow(b, k):
    return any(has(b, p) and not isinstance(get(b, p), dict) for p in prefixes(k))


def noshadow(x, y, keys):
    """no kind conflict: wherever both dictionaries hold a key, both hold a section or both hold a value"""
    return all(isinstance(get(x, k), dict) == isinstance(get(y, k), dict) for k in keys if has(x, k) and has(y, k))


def sub(o2, o, keys):
    """the order used by law L2 ("below"): every key present in o2 is present in o (values of other keys are unconstrained)"""
    return all(has(o, k) for k in keys if has(o2, k))


def restrict(o, S):
    r = {}
    for k in sorted(S):
        if has(o, k):
            set_dotted_key(k, copy.deepcopy(get(o, k)), r)
    return r


def isdict(v):
    return isinstance(v, dict)


def check_pair(a, b, keys, fails, counts):
    """clauses over two dictionaries (mix, sub, lemmas)"""
    a0, b0 = copy.deepcopy(a), copy.deepcopy(b)
    m = mix(a, b)
    counts["mix"] += 1
    if a != a0 or b != b0:
        fails.append(("mix is pure", a, b))
    for k in keys:
        want = has(b, k) or (has(a, k) and not shadow(b, k))
        if has(m, k) != want:
            fails.append(("has(mix)", a, b, k))
            continue
        if has(b, k) and not (isdict(get(b, k)) and has(a, k) and isdict(get(a, k))):
            if get(m, k) != get(b, k):
                fails.append(("get(mix)=get(b)", a, b, k))
        if has(a, k) and not has(b, k) and not shadow(b, k):
            if get(m, k) != get(a, k):
                fails.append(("get(mix)=get(a)", a, b, k))
        if has(m, k) and has(b, k) and isdict(get(b, k)) and not isdict(get(m, k)):
            fails.append(("dict stays dict", a, b, k))
        if blocked(m, k) and not (blocked(b, k) or blocked(a, k)):
            pass
    if mix(a, {}) != a or mix({}, a) != a:
        fails.append(("mix with empty", a))
    # pruning order lemmas
    if sub(a, b, keys):
        counts["sub"] += 1
        for k in keys:
            if has(a, k) and not has(b, k):
                fails.append(("sub: has", a, b, k))



def check_triple(o2, o, p, keys, fails, counts):
    if not sub(o2, o, keys):
        return
    counts["triple"] += 1
    if not sub(mix(o2, p), mix(o, p), keys):
        fails.append(("M1 sub(mix(o2,P),mix(o,P))", o2, o, p))
    if noshadow(o, p, keys):
        counts["M2"] = counts.get("M2", 0) + 1
        if not sub(mix(p, o2), mix(p, o), keys):
            fails.append(("M2 sub(mix(D,o2),mix(D,o)) under noshadow(o,D)", o2, o, p))
        for k in keys:
            if has(p, k) and shadow(o, k):
                fails.append(("noshadow(o,D) & has(D,k) => not shadow(o,k)", o, p, k))


def check_single(o, keys, fails, counts):
    for k in keys:
        for v in LEAVES:
            s = {}
            set_dotted_key(k, copy.deepcopy(v), s)
            counts["single"] += 1
            if not has(s, k) or get(s, k) != v:
                fails.append(("single: has/get", k, v))
            for q in keys:
                if has(s, q) != (q == k or anc(q, k)):
                    fails.append(("single: other keys", k, q))
                if anc(q, k) and not isdict(get(s, q)):
                    fails.append(("single: prefixes are dicts", k, q))
    # tree well-formedness, blocked, subtree determinism, restrict, extensionality
    for k in keys:
        if has(o, k):
            for p in prefixes(k):
                if not has(o, p) or not isinstance(get(o, p), (dict, list)):
                    fails.append(("tree wf", o, k, p))
        if blocked(o, k) and has(o, k):
            fails.append(("blocked => not has", o, k))
    present = [k for k in keys if has(o, k)]
    for S in ([], present[:1], present[:2], present):
        r = restrict(o, S)
        counts["restrict"] += 1
        if not sub(r, o, keys):
            fails.append(("sub(restrict(o,S),o)", o, S))
        for k in S:
            if not (has(r, k) and get(r, k) == get(o, k)):
                fails.append(("restrict keeps S", o, S, k))
    tops = [k for k in keys if "." not in k and has(o, k)]
    r = restrict(o, tops)
    if r != o:
        fails.append(("extensionality via top-level keys", o))


def validate(seed=0, depth=2, sample=4000):
    rnd = random.Random(seed)
    ts = trees(depth)
    keys = all_keys(depth + 1)
    fails = []
    counts = {"mix": 0, "sub": 0, "triple": 0, "single": 0, "restrict": 0}
    for o in ts[: min(len(ts), 400)]:
        check_single(o, keys, fails, counts)
    pairs = [(rnd.choice(ts), rnd.choice(ts)) for _ in range(sample)]
    for a, b in pairs:
        check_pair(a, b, keys, fails, counts)
    # triples with o2 a pruning of o: build o2 by deleting keys from o
    for _ in range(sample // 2):
        o = rnd.choice(ts)
        o2 = copy.deepcopy(o)
        for k in rnd.sample(keys, 2):
            if has(o2, k):
                parts = k.split(".")
                cur = o2
                for pp in parts[:-1]:
                    cur = cur[pp]
                if isinstance(cur, dict):
                    cur.pop(parts[-1], None)
        check_triple(o2, o, rnd.choice(ts), keys, fails, counts)
    return fails, counts


if __name__ == "__main__":
    f, c = validate()
    print(c, len(f))
    for x in f[:10]:
        print(x)
