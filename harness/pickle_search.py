"""Bounded check for C20 on the real code: explicit-form datasets from an importable module, round trip in-process (all protocols) and,
in the thorough tier, into a freshly started interpreter."""
from __future__ import annotations

import importlib
import os
import pickle
import subprocess
import sys
import tempfile

MOD = '''
from labrea import dataset, Option, switch
from labrea.option import WithOptions

def _leaf(a=Option("A"), b=Option("B", 1)):
    return (a, b)
leaf = dataset(_leaf)

def _impl():
    return "impl"
impl = dataset(_impl)

def _top(x=leaf, k=Option("K", "k")):
    return ("top", x, k)
def _cb(v):
    return ("cb", v)
top = dataset(_top, dispatch="KIND", options={"S": {"X": 1}}, default_options={"B": 7}, callback=_cb)
top.register("other", impl)
wrapped = WithOptions(switch(Option("KIND", "z"), {"z": leaf}, Option("Z", 0)), {"B": 3})
GRAPHS = {"leaf": leaf, "top": top, "wrapped": wrapped}
'''
DICTS = [{}, {"A": 1}, {"A": 2, "B": 5}, {"A": 1, "KIND": "other"}, {"A": 1, "KIND": "nope", "K": 0}, {"Z": 4, "KIND": "q"}]


def outcome(f):
    try:
        return ("ok", f())
    except Exception as e:  # noqa
        return ("err", type(e).__name__)


def behaviour(g, o):
    return (outcome(lambda: g(dict(o))), outcome(lambda: sorted(g.keys(dict(o)))), outcome(lambda: g.validate(dict(o))))


def run(fresh_process=False):
    d = tempfile.mkdtemp(prefix="verif-pickle-")
    msgs, n = [], 0
    try:
        open(os.path.join(d, "verif_pickle_graphs.py"), "w").write(MOD)
        sys.path.insert(0, d)
        sys.modules.pop("verif_pickle_graphs", None)
        m = importlib.import_module("verif_pickle_graphs")
        for name, g in m.GRAPHS.items():
            for proto in range(2, pickle.HIGHEST_PROTOCOL + 1):
                try:
                    h = pickle.loads(pickle.dumps(g, protocol=proto))
                except Exception as e:  # noqa
                    msgs.append(f"{name}: pickle round trip (protocol {proto}) failed: {type(e).__name__}: {str(e)[:100]}")
                    continue
                for o in DICTS:
                    n += 1
                    if behaviour(g, o) != behaviour(h, o):
                        msgs.append(f"{name} (protocol {proto}) on {o}: original {behaviour(g, o)}, unpickled {behaviour(h, o)}")
                if name == "top":
                    try:
                        h.register("late", m.impl)
                        if h({"A": 1, "KIND": "late"}) != ("cb", "impl"):
                            msgs.append("unpickled dataset: registration after load is not used")
                    except Exception as e:  # noqa
                        msgs.append(f"unpickled dataset cannot register: {e!r}")
        if fresh_process:
            blob = os.path.join(d, "top.pkl")
            pickle.dump(m.GRAPHS["top"], open(blob, "wb"))
            code = ("import pickle,sys; sys.path.insert(0, %r); g = pickle.load(open(%r,'rb')); "
                    "print(repr([(o, g(dict(o))) for o in [{'A': 1}, {'A': 1, 'KIND': 'other'}]]))") % (d, blob)
            p = subprocess.run([sys.executable, "-c", code], capture_output=True, text=True, cwd="/tmp")
            want = repr([(o, m.GRAPHS["top"](dict(o))) for o in [{"A": 1}, {"A": 1, "KIND": "other"}]])
            n += 2
            if p.stdout.strip() != want:
                msgs.append(f"fresh interpreter: {p.stdout.strip()[:200]} {p.stderr.strip()[-200:]} != {want}")
    finally:
        if d in sys.path:
            sys.path.remove(d)
        sys.modules.pop("verif_pickle_graphs", None)
        import shutil
        shutil.rmtree(d, ignore_errors=True)
    return msgs, n


def replay(case):
    m, _ = run(case.get("fresh", False))
    return bool(m), "\n".join(m[:5]) or "holds"


def search(seed=0, fresh=False):
    m, n = run(fresh)
    return ({"module": "harness.pickle_search", "case": {"fresh": fresh}} if m else None), n
