"""Bounded check / witness search for C13 on the real code: pipelines over a step universe, all bracketings up to length 4,
and the operand order of the helper steps of labrea.functions (against plain Python)."""
from __future__ import annotations

import itertools
import operator
import random


def universe():
    from labrea import Option, pipeline_step
    from labrea.pipeline import Pipeline
    import labrea.functions as F

    @pipeline_step
    def addp(x, y=Option("AMOUNT", 1)):
        return x + y

    @pipeline_step
    def mulp(x, y=Option("FACTOR", 2)):
        return x * y
    steps = {"addp": addp, "mulp": mulp, "sub3": F.subtract(3), "divby": F.divide_by(Option("D", 2)), "neg": (lambda x: -x), "empty": Pipeline(),
             "addopt": F.add(Option("K", Option("KD", 10)))}
    ref = {"addp": lambda x, o: x + o.get("AMOUNT", 1), "mulp": lambda x, o: x * o.get("FACTOR", 2), "sub3": lambda x, o: x - 3, "divby": lambda x, o: x / o.get("D", 2),
           "neg": lambda x, o: -x, "empty": lambda x, o: x, "addopt": lambda x, o: x + o.get("K", o.get("KD", 10))}
    return steps, ref


def bracketings(names):
    if len(names) == 1:
        yield names[0]
        return
    for i in range(1, len(names)):
        for l in bracketings(names[:i]):
            for r in bracketings(names[i:]):
                yield (l, r)


def build(tree, steps):
    from labrea.pipeline import Pipeline
    if isinstance(tree, str):
        s = steps[tree]
        return s
    l, r = build(tree[0], steps), build(tree[1], steps)
    if not hasattr(l, "__add__") or callable(l) and not hasattr(l, "evaluate"):
        l = Pipeline() + l
    return l + r


def check(names, o):
    from labrea.pipeline import Pipeline
    from labrea import Option
    steps, ref = universe()
    msgs = []
    want = 7
    for n in names:
        want = ref[n](want, o)
    results = set()
    for tree in bracketings(list(names)):
        p = build(tree, steps)
        if not isinstance(p, Pipeline):
            p = Pipeline() + p
        got = p.transform(7, o)
        if got != want:
            msgs.append(f"{tree}: transform(7, {o}) = {got}, plain composition gives {want}")
        listed = [s for s in p]
        nonempty = [n for n in names if n != "empty"]
        if len(listed) > max(1, len(nonempty)) or (nonempty and len(listed) != len(nonempty)):
            msgs.append(f"{tree}: iteration yields {len(listed)} steps, expected {len(nonempty)} (an empty pipeline may yield the identity step)")
        else:
            v = 7
            for s in listed:
                v = s(o)(v) if hasattr(s, "evaluate") else s(v)
            if v != want:
                msgs.append(f"{tree}: iterating the pipeline does not yield its steps in application order")
        ks = p.keys(o)
        ex = p.explain(o)
        union_k, union_x = set(), set()
        for n in names:
            s = steps[n]
            if hasattr(s, "keys"):
                union_k |= s.keys(o)
                union_x |= s.explain(o)
        if ks != union_k:
            msgs.append(f"{tree}: keys {sorted(ks)} != union of step keys {sorted(union_k)}")
        if ex != union_x:
            msgs.append(f"{tree}: explain {sorted(ex)} != union of step explanations {sorted(union_x)}")
        e = Option("X7", 7) >> p
        if e(o) != want:
            msgs.append(f"{tree}: (e >> p)(o) = {e(o)} != p.transform(e(o), o) = {want}")
    return msgs


HELPERS = [
    ("subtract", (3,), 10, 7), ("divide_by", (2,), 10, 5.0), ("divide_into", (20,), 10, 2.0), ("left_multiply", ("ab",), 2, "abab"),
    ("modulo", (3,), 10, 1), ("get", ("k", 0), {"k": 5}, 5), ("contains", (2,), [1, 2], True), ("is_in", ([1, 2],), 2, True), ("merge", ({"a": 2},), {"a": 1, "b": 1}, {"a": 2, "b": 1}),
    ("le", ({3},), {1, 2}, False), ("ge", ({3},), {1, 2}, False), ("lt", ({3},), {1, 2}, False), ("gt", ({3},), {1, 2}, False), ("le", ({1, 2, 3},), {1, 2}, True),
    ("ge", ({1},), {1, 2}, True), ("le", (float("nan"),), 1.0, False), ("ge", (float("nan"),), 1.0, False),
    ("has_remainder", (3, 1), 10, True), ("gt", (3,), 10, True), ("lt", (3,), 10, False), ("ge", (10,), 10, True), ("le", (3,), 10, False),
]


def check_helpers():
    import labrea.functions as F
    from labrea import Option
    msgs = []
    for name, args, x, want in HELPERS:
        fn = getattr(F, name, None)
        if fn is None:
            continue
        for as_option in (False, True):
            if as_option:
                opts = {f"ARG{i}": a for i, a in enumerate(args)}
                step = fn(*[Option(f"ARG{i}") for i in range(len(args))])
                got = step.transform(x, opts)
                if step.keys(opts) != set(opts):
                    msgs.append(f"{name}: option-valued arguments {sorted(opts)} not reported by keys(): {sorted(step.keys(opts))}")
            else:
                got = fn(*args).transform(x, {})
            if got != want or type(got) is not type(want):
                msgs.append(f"{name}{args}({x!r}) = {got!r}, documented operation gives {want!r} (arguments as {'options' if as_option else 'constants'})")
    return msgs


def _collection_cases():
    """(expression as text, input, expected per the documented operation); inputs include non-dict mappings, tuples and generators"""
    from types import MappingProxyType as MP
    pair = lambda a, b=0: (a, b)      # noqa
    inc = lambda x: x + 1             # noqa
    even = lambda x: x % 2 == 0       # noqa
    return {"pair": pair, "inc": inc, "even": even, "MP": MP}, [
        ("F.into(pair)", {"a": 1, "b": 2}, (1, 2)), ("F.into(pair)", "MP({'a': 1, 'b': 2})", (1, 2)), ("F.into(pair)", [1, 2], (1, 2)), ("F.into(pair)", (5,), (5, 0)),
        ("F.map(inc)", [1, 2], [2, 3]), ("F.map(inc)", (1, 2), [2, 3]), ("F.filter(even)", [1, 2, 4], [2, 4]), ("F.reduce(lambda a, b: a + b, 0)", [1, 2, 3], 6),
        ("F.flatmap(lambda x: [x, x])", [1, 2], [1, 1, 2, 2]),
        ("F.map_items(lambda k, v: (k + k, v + 1))", {"a": 1}, {"aa": 2}), ("F.map_keys(lambda k: k + k)", {"a": 1}, {"aa": 1}), ("F.map_values(inc)", {"a": 1}, {"a": 2}),
        ("F.map_values(inc)", "MP({'a': 1})", {"a": 2}),
        ("F.filter_items(lambda k, v: v > 1)", {"a": 1, "b": 2}, {"b": 2}), ("F.filter_keys(lambda k: k == 'a')", {"a": 1, "b": 2}, {"a": 1}), ("F.filter_values(even)", {"a": 1, "b": 2}, {"b": 2}),
        ("F.map_values(inc) + F.into(pair)", {"a": 1, "b": 2}, (2, 3)), ("F.filter_values(even) + F.into(pair)", {"a": 2, "b": 3}, (2, 0)),
        ("F.map_keys(lambda k: k) + F.map_values(inc)", {"a": 1}, {"a": 2}),
        ("F.concat([3])", [1, 2], [1, 2, 3]), ("F.append(3)", [1, 2], [1, 2, 3]), ("F.intersect({2, 3})", {1, 2}, {2}), ("F.union({3})", {1}, {1, 3}),
        ("F.difference({2})", {1, 2}, {1}), ("F.symmetric_difference({2, 3})", {1, 2}, {1, 3}),
        ("F.get_from({'k': 5})", "k", 5), ("F.add(1)", 2, 3), ("F.multiply(3)", 2, 6), ("F.eq(2)", 2, True), ("F.instance_of(int)", 2, True),
        ("F.all(even, lambda x: x > 0)", 2, True), ("F.any(even, lambda x: x > 5)", 3, False), ("F.invert(even)", 3, True),
    ]


def check_collection_helpers():
    import labrea.functions as F
    env, cases = _collection_cases()
    env = dict(env, F=F)
    msgs = []
    for text, x, want in cases:
        try:
            step = eval(text, env)
            xin = eval(x, env) if isinstance(x, str) and x.startswith("MP(") else x
            got = step.transform(xin, {})
            if hasattr(got, "__iter__") and not isinstance(got, (list, tuple, dict, set, str)):
                got = dict(got) if hasattr(got, "keys") else list(got)
            if isinstance(want, list) and isinstance(got, tuple):
                got = list(got)
        except Exception as e:  # noqa
            got = f"raised {type(e).__name__}: {e}"
        if got != want:
            msgs.append(f"{text} applied to {x!r} = {got!r}, documented operation gives {want!r}")
    return msgs


def replay(case):
    msgs = (check_helpers() + check_collection_helpers()) if case.get("helpers") else check(case["names"], case["options"])
    return bool(msgs), f"case={case}\n" + ("\n".join(msgs[:6]) or "holds")


def search(seed=0, budget=40):
    if check_helpers() or check_collection_helpers():
        return {"module": "harness.pipeline_search", "case": {"helpers": True}}, 1
    rnd = random.Random(seed)
    steps, _ = universe()
    names = list(steps)
    n_cases = 0
    for o in ({}, {"AMOUNT": 5, "FACTOR": 3, "D": 4}, {"K": 2, "KD": 1}, {"K": " {KD}"} if False else {"KD": 3}):
        for _ in range(budget):
            seq = [rnd.choice(names) for _ in range(rnd.randint(1, 4))]
            n_cases += 1
            if check(seq, o):
                return {"module": "harness.pipeline_search", "case": {"names": seq, "options": o}}, n_cases
    return None, n_cases
