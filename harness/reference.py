"""An independent, memo-free reference interpretation of labrea expression graphs, written from the property statements
(C04, C05, C08, C09). It reads only the *fields* of the real objects and never calls their evaluate/validate/keys.
Used by the witness search (refutation only)."""
from __future__ import annotations

import copy
import itertools

from confectioner import mix
from confectioner.templating import resolve


class RefError(Exception):
    def __init__(self, kind, key=None):
        super().__init__(kind, key)
        self.kind, self.key = kind, key


class Unknown(Exception):
    """node type the reference does not model"""


def lookup(key, o):
    cur = o
    for part in key.split("."):
        if isinstance(cur, dict):
            if part.lstrip("-").isdigit() or part not in cur:
                raise KeyError(key)
            cur = cur[part]
        elif isinstance(cur, list):
            if not part.lstrip("-").isdigit():
                raise KeyError(key)
            try:
                cur = cur[int(part)]
            except IndexError:
                raise KeyError(key)
        else:
            raise KeyError(key)
    return cur


def ref(e, o):
    from labrea._missing import MISSING
    n = type(e).__name__
    if n == "Value":
        return copy.deepcopy(e.value)
    if n == "Option":
        try:
            raw = lookup(e.key, o)
        except KeyError:
            if e.default is MISSING:
                raise RefError("missing", e.key)
            v = ref(e.default, o)
        else:
            try:
                v = resolve(raw, o)
            except KeyError as k:
                raise RefError("missing", k.args[0])
        if e.domain is not MISSING:
            d = ref(e.domain, o)
            if callable(d):
                if not d(v):
                    raise RefError("domain")
            elif hasattr(d, "__contains__") and v not in d:
                raise RefError("domain")
        return v
    if n == "Template":
        # "every {:name:} [is replaced] by the string form of the named parameter evaluated under the same options": parameters are
        # substituted as they are, after the option references have been resolved
        params = {k: str(ref(v, o)) for k, v in e.params.items()}
        text = e.template
        for k in params:
            text = text.replace("{:" + k + ":}", "\x00" + k + "\x00")
        try:
            res = str(resolve(text, o))
        except KeyError as k:
            raise RefError("missing", k.args[0])
        for k, v in params.items():
            res = res.replace("\x00" + k + "\x00", v)
        return res
    if n == "Apply":
        x = ref(e.evaluatable, o)
        f = ref(e.func, o)
        return call(f, x)
    if n == "Bind":
        return ref(call(e.func, ref(e.evaluatable, o)), o)
    if n in ("Switch", "Overloaded"):
        try:
            k = ref(e.dispatch, o)
        except RefError:
            if e.default is MISSING:
                raise
            return ref(e.default, o)
        if k in e.lookup:
            return ref(e.lookup[k], o)
        if e.default is MISSING:
            raise RefError("unmatched")
        return ref(e.default, o)
    if n == "CaseWhen":
        v = ref(e.dispatch, o)
        for cond, res in e.cases:
            if call(ref(cond, o), v):
                return ref(res, o)
        if e.default is MISSING:
            raise RefError("unmatched")
        return ref(e.default, o)
    if n == "Coalesce":
        last = None
        for m in e.members:
            try:
                return ref(m, o)
            except RefError as x:
                last = x
        raise last
    if n == "Iter":
        return [ref(c, o) for c in e.evaluatables]
    if n == "EvaluatableArgs":
        return tuple(ref(c, o) for c in e.args)
    if n == "EvaluatableKwargs":
        return {k: ref(c, o) for k, c in e.kwargs.items()}
    if n in ("FunctionApplication", "PartialApplication"):
        f = ref(e.func, o)
        a = ref(e.arguments.args, o)
        k = ref(e.arguments.kwargs, o)
        if n == "PartialApplication":
            import functools
            return functools.partial(f, *a, **k)
        return call(f, *a, **k)
    if n == "WithOptions":
        return ref(e.evaluatable, mix(o, e.options) if e.force else mix(e.options, o))
    if n in ("Cached", "Logged", "Computation", "_DependsOn"):
        return ref(e.evaluatable, o)
    if n == "PipelineStep":
        return ref(e.step, o)
    if n == "Pipeline":
        tail = ref(e.tail, o)
        rest = ref(e.rest, o) if e.rest is not None else (lambda x: x)
        return lambda x: tail(rest(x))
    if n == "Dataset":
        oo = mix(mix(e.default_options, o), e.options)
        v = ref(e.overloads, oo)
        return call(ref(e.callback, oo), v)
    if n == "Map":
        its = {k: list(ref(v, o)) for k, v in e.iterables.items()}
        out = []
        for combo in itertools.product(*its.values()):
            assign = dict(zip(its.keys(), combo))
            from confectioner.templating import set_dotted_key as _set
            overlay = {}
            for dk, dv in assign.items():       # the assignment as an options dictionary, built here (not with the code under test)
                _set(dk, dv, overlay)
            out.append((assign, ref(e.evaluatable, mix(o, overlay))))
        return out
    if n == "_AllOptions":
        return resolve(o)
    raise Unknown(n)


def call(f, *a, **k):
    try:
        return f(*a, **k)
    except RefError:
        raise
    except Exception as x:  # noqa
        raise RefError("user", type(x).__name__)


def ref_outcome(e, o):
    try:
        v = ref(e, copy.deepcopy(o))
        if hasattr(v, "__iter__") and not isinstance(v, (list, tuple, dict, set, str, bytes)):
            v = list(v)
        return ("ok", v)
    except RefError as x:
        return ("err", x.kind)
    except RecursionError:
        return ("unknown", None)
    except Unknown as u:
        return ("unknown", str(u))
