"""Replay files: written on violation, re-run with `./check <prop> --replay FILE`."""
from __future__ import annotations

import importlib
import json
import os
import re

ROOT = os.path.dirname(os.path.dirname(os.path.abspath(__file__)))


def write(pid, group, witness, obligations):
    d = os.environ.get("VERIF_REPLAY_DIR") or os.path.join(ROOT, "replays")
    os.makedirs(d, exist_ok=True)
    name = re.sub(r"[^A-Za-z0-9_.-]+", "_", f"{pid}-{group}") + ".json"
    path = os.path.join(d, name)
    json.dump({"property": pid, "group": group, "obligations": obligations, "witness": witness}, open(path, "w"), indent=1, default=str)
    return path


def run_witness(w):
    """returns (violates, message)"""
    if w.get("kind") == "obligation-only":
        return None, "no failing input recorded: " + json.dumps(w, default=str)[:2000]
    mod = importlib.import_module(w["module"])
    return mod.replay(w["case"])


def run(path):
    data = json.load(open(path))
    v, msg = run_witness(data["witness"])
    print(f"replay {path}: property={data['property']} group={data['group']}")
    print(msg)
    if v is None:
        print("obligation-only replay: re-run the check to see whether the obligation is discharged")
        return 1
    print("VIOLATES" if v else "holds on the current tree")
    return 1 if v else 0


def finding_still_fails(f):
    try:
        v, _ = run_witness(f["witness"])
        return bool(v)
    except Exception:
        return True
