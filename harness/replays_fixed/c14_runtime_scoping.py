"""Replay of findings F1-F4 (C14/C15): runtime scoping. Exit 1 if any scenario violates the property."""
import sys, threading
from labrea import runtime
from labrea.runtime import Request, Runtime, handle

class R(Request):
    def __init__(self): pass

def tag(t):
    return lambda req: t

bad = []

def in_thread(fn):
    out = {}
    def w():
        try:
            out["r"] = fn()
        except BaseException as e:  # noqa
            out["e"] = e
    th = threading.Thread(target=w); th.start(); th.join()
    return out

# F1: entering a runtime in a thread that has no runtime yet, then leaving, must leave the thread usable
def f1():
    with Runtime({R: tag("inner")}):
        assert R().run() == "inner"
    runtime.handle_by_default(R, tag("default"))
    return R().run()
o = in_thread(f1)
if o.get("r") != "default": bad.append(("F1 fresh-thread enter/exit", o))

# F2: re-entering an already active runtime
def f2():
    runtime.handle_by_default(R, tag("default"))
    assert R().run() == "default"
    r = handle(R, tag("r"))
    with r:
        with r:
            assert R().run() == "r"
        assert R().run() == "r"
    return R().run()
o = in_thread(f2)
if o.get("r") != "default": bad.append(("F2 re-entered runtime", o))

# F3: a default registered after the thread's runtime exists
class Late(Request):
    def __init__(self): pass
def f3():
    runtime.current_runtime()
    runtime.handle_by_default(Late, tag("late"))
    return Late().run()
o = in_thread(f3)
if o.get("r") != "late": bad.append(("F3 default registered later", o))

# F4: one runtime object entered by two threads
shared = Runtime({R: tag("shared")})
e1, e2, e3 = threading.Event(), threading.Event(), threading.Event()
res = {}
def t1():
    with Runtime({R: tag("outer1")}):
        with shared:
            e1.set(); e2.wait(5)
        res["t1"] = R().run()
    e3.set()
def t2():
    e1.wait(5)
    with Runtime({R: tag("outer2")}):
        with shared:
            e2.set(); e3.wait(5)
        res["t2"] = R().run()
a = threading.Thread(target=t1); b = threading.Thread(target=t2); a.start(); b.start(); a.join(); b.join()
if res != {"t1": "outer1", "t2": "outer2"}: bad.append(("F4 shared runtime across threads", res))

for b_ in bad: print("FAILS:", b_)
sys.exit(1 if bad else 0)
