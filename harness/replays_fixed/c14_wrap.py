"""regression replay of the fixed findings F1-F4 (runs the scenario script in a subprocess)"""
import os, subprocess, sys

def replay(case):
    here = os.path.dirname(os.path.abspath(__file__))
    p = subprocess.run([sys.executable, os.path.join(here, "c14_runtime_scoping.py")], capture_output=True, text=True, cwd="/tmp")
    return p.returncode != 0, p.stdout + p.stderr[-500:]
