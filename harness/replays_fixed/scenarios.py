"""Concrete scenarios of the findings of DESIGN.md section 9, run on the REAL labrea.
Each function returns None when the property holds on the current tree, or a message when it is violated."""
import threading  # noqa
from labrea import Option, dataset, switch, case, coalesce, cached, Value  # noqa
from labrea.option import WithOptions, WithDefaultOptions
import labrea.functions as F


def outcome(f):
    try:
        return ("ok", f())
    except Exception as e:  # noqa
        return ("err", type(e).__name__)


def f5_casewhen_condition_keys():
    c = cached(case(Option("A")).when(F.gt(Option("T")), "big").otherwise("small"))
    a = c({"A": 5, "T": 1})
    b = c({"A": 5, "T": 10})
    if (a, b) != ("big", "small"):
        return f"case/when condition option T not in keys: cached results {a!r},{b!r} (expected 'big','small'); keys={c.keys({'A': 5, 'T': 1})}"


def f6_option_container_template():
    o = cached(Option("A"))
    a = o({"A": ["{X}"], "X": 1})
    b = o({"A": ["{X}"], "X": 2})
    if (a, b) != (["1"], ["2"]) and (a, b) != ([1], [2]):
        return f"templated reference inside a list value not in keys: cached results {a!r},{b!r}; keys={Option('A').keys({'A': ['{X}'], 'X': 1})}"


def f7_option_domain_keys():
    o = Option("A", domain=Option("DOM"))
    ks = o.keys({"A": 1, "DOM": [1, 2]})
    c = cached(o)
    a = outcome(lambda: c({"A": 1, "DOM": [1, 2]}))
    b = outcome(lambda: c({"A": 1, "DOM": [3]}))
    if a[0] == "ok" and b[0] == "ok":
        return f"evaluatable domain not in keys ({ks}): value outside the declared domain returned from cache: {b}"


def f8_withoptions_section_sibling():
    @dataset(options={"S": {"X": 1}})
    def d(s=Option("S")):
        return dict(s)

    @dataset
    def outer(x=d):
        return x
    a = outer({"S": {"Y": 2}})
    b = outer({"S": {"Y": 3}})
    if b != {"Y": 3, "X": 1}:
        return f"sibling inside a pre-set section not in keys: {a!r} then {b!r} (expected Y=3); d.keys={d.keys({'S': {'Y': 2}})}"


def f9_with_options_callback():
    @dataset(callback=lambda x: x + 100)
    def f(a=Option("A")):
        return a
    g = f.with_options({"B": 2})
    r1 = g({"A": 5})
    r2 = f({"A": 5})
    if (r1, r2) != (105, 105):
        return f"with_options derivative dropped the callback and poisoned the shared cache: derivative={r1}, original afterwards={r2} (expected 105,105)"


def f9b_with_options_effect_toggle():
    log = []

    @dataset(effects=[lambda v: log.append(v)])
    def f(a=Option("A")):
        return a
    f.disable_effects()
    g = f.with_default_options({"B": 2})
    g({"A": 1})
    if log:
        return f"with_default_options derivative re-enabled disabled effects: effect ran {log}"


def f11_option_unresolvable_template():
    o = Option("A", 5)
    r = outcome(lambda: o({"A": "{NOPE}"}))
    if r == ("ok", 5):
        return "present key with an unresolvable template was taken for 'absent': default 5 returned"
    o2 = Option("A")
    try:
        o2({"A": "{NOPE}"})
    except Exception as e:  # noqa
        k = getattr(e, "key", None)
        if k != "NOPE":
            return f"missing templated reference reported with key {k!r} (expected 'NOPE')"


def f12_namespace_domain():
    @Option.namespace
    class NS:
        X = Option("X", domain=[1, 2])
    r = outcome(lambda: NS.X({"NS": {"X": 9}}))
    q = outcome(lambda: Option("NS.X", domain=[1, 2])({"NS": {"X": 9}}))
    if r[0] != q[0]:
        return f"namespace member lost its domain: namespace {r}, fully-qualified {q}"


def f13_implementation_all_or_nothing():
    from labrea import interface, abstractdataset

    @interface("KEY")
    class I:
        a: int
        b: int
    try:
        @I.implementation("X")
        class Impl:
            a = 1
    except TypeError:
        pass
    r = outcome(lambda: I.a({"KEY": "X"}))
    if r[0] == "ok":
        return f"rejected implementation registered member a anyway: I.a -> {r}"


def f14_datasetclass_dotted():
    from labrea import datasetclass

    @datasetclass
    class C:
        x: int = Option("S.X")
    a, b = C({"S": {"X": 1}}), C({"S": {"X": 2}})
    if a == b or "None" in repr(a):
        return f"dataset class instances from S.X=1 and S.X=2 compare equal / repr loses value: {a!r} {b!r}"


def f22_scalar_blocked_prefix():
    o = Option("S.X", default=1)
    rs = [outcome(lambda: o({"S": 5})), outcome(lambda: o.validate({"S": 5})), outcome(lambda: o.keys({"S": 5})), outcome(lambda: o.explain({"S": 5}))]
    if rs[0] != ("ok", 1) or any(r[0] == "err" for r in rs[1:]):
        return f"Option('S.X', default=1) on {{'S': 5}}: evaluate/validate/keys/explain -> {rs} (expected default 1, no raw TypeError)"


def f16_option_default_domain_validate():
    o = Option("A", 1, domain=Option("DOM"))
    v = outcome(lambda: o.validate({}))
    e = outcome(lambda: o({}))
    if v[0] == "ok" and e[0] == "err":
        return f"validate passes but evaluate fails for the missing domain option: {v} {e}"




def replay(case):
    SCENARIOS = scenarios()
    fn = SCENARIOS[case["scenario"]]
    msg = fn()
    return msg is not None, msg or "holds"


def f18_switch_dispatch_fallback():
    neg = lambda z: -z
    s = cached(switch(Option("A", 0).bind(lambda a: Option("B") if a else Value(1)), {1: Option("Z") >> neg}, default=Option("Z")))
    a = s({"A": True, "Z": 5})
    b = s({"Z": 5})
    if (a, b) != (5, -5):
        return f"switch whose dispatch fails under one dictionary and succeeds under a pruning of it: equal fingerprints, cached results {a},{b} (expected 5,-5)"


def f19_coalesce_member_fallback():
    p = Option("A", 0).bind(lambda a: Option("B") if a else Value(1))
    c = coalesce(p, Option("Z"))
    o = {"A": True, "Z": 5}
    ks = c.keys(o)
    a = c(o)
    b = c({k: o[k] for k in ks})
    if a != b:
        return f"coalesce whose first member fails: keys({o}) = {ks}, value {a}; on the restriction to those keys the value is {b}"


def f21_coalesce_partial_body():
    def body(a):
        if a < 0:
            raise ValueError("negative")
        return a
    p = Option("A") >> body
    c = coalesce(p, Option("B"))
    o = {"A": -1}
    v = outcome(lambda: c.validate(o))
    e = outcome(lambda: c(o))
    x = outcome(lambda: c.explain(o))
    if v[0] == "ok" and e[0] == "err":
        return f"coalesce(p, Option('B')) with p validating but raising: validate passes, evaluate fails ({e}), explain={x}"


def f15_effect_options_not_in_keys():
    seen = []

    @dataset(effects=[Option("E").apply(lambda e: (lambda v: seen.append((e, v))))])
    def d(a=Option("A")):
        return a

    @dataset
    def outer(x=d):
        return x
    ks = outcome(lambda: d.keys({"A": 1}))
    v = outcome(lambda: d.validate({"A": 1}))
    e = outcome(lambda: d({"A": 1}))
    if ks[0] == "ok" and (v[0] == "err" or e[0] == "err"):
        return f"effect needing Option('E'): keys succeeds ({ks[1]}), validate {v[0]}, evaluate {e[0]}"


def f20_with_options_precedence():
    @dataset(options={"A": 1})
    def d(a=Option("A")):
        return a
    r1 = d.with_options({"A": 2})({})
    r2 = d({"A": 2})
    if r1 != r2:
        return f"d.with_options({{'A': 2}})({{}}) = {r1} but d({{'A': 2}}) = {r2}: the derivative's options override the dataset's own pre-set options"


def f17_pickle_decorated_dataset():
    import pickle, sys, types
    mod = types.ModuleType("verif_pickle_mod")
    sys.modules["verif_pickle_mod"] = mod
    exec("from labrea import dataset, Option\n@dataset\ndef f(a=Option('A')):\n    return a\n", mod.__dict__)
    try:
        pickle.loads(pickle.dumps(mod.f))
    except Exception as e:  # noqa
        return f"decorator-form dataset cannot be pickled: {type(e).__name__}: {str(e)[:120]}"


def f26_alloptions_unresolvable():
    from labrea.option import AllOptions
    o = {"A": "{NOPE}"}
    ks, ev, vl = outcome(lambda: AllOptions.keys(o)), outcome(lambda: AllOptions(o)), outcome(lambda: AllOptions.validate(o))
    if ks[0] == "ok" and ev[0] == "err":
        return f"AllOptions on {o}: keys succeeds ({ks[1]}) while evaluate/validate fail ({ev}, {vl})"


def f27_option_set_list_index():
    o = Option("L.0")
    r = o.set({}, 7)
    back = outcome(lambda: o(r))
    if back != ("ok", 7):
        return f"Option('L.0').set({{}}, 7) = {r}, in which the option evaluates to {back} (list-indexed keys are written as mapping keys)"


def f28_section_embedded_in_text():
    from labrea import Template
    t = Template("inputs={S}")
    o = {"S": {"X": 1, "Y": 2}}
    v, e = outcome(lambda: t.validate(o)), outcome(lambda: t(o))
    if v[0] == "ok" and e[0] == "err":
        return f"Template('inputs={{S}}') on {o}: validate passes, evaluate fails ({e}): str() of the section contains braces that the substitution takes for template keys"


def f29_map_non_iterable():
    from labrea import Map
    from labrea.exceptions import EvaluationError
    m = Map(Option("A"), {"A": Option("A")})
    o = {"A": 1}
    for name in ("explain", "validate", "keys"):
        try:
            getattr(m, name)(o)
        except EvaluationError:
            pass
        except Exception as e:  # noqa
            return f"Map(Option('A'), {{'A': Option('A')}}).{name}({o}) fails with {type(e).__name__} ({e}), not an EvaluationError"


def f30_template_parameter_resubstituted():
    from labrea import Template
    t = Template("{:p:}", p=Value("{NOPE}"))
    v, ks, e = outcome(lambda: t.validate({})), outcome(lambda: t.keys({})), outcome(lambda: t({}))
    if e != ("ok", "{NOPE}"):
        return f"Template('{{:p:}}', p=Value('{{NOPE}}')): validate {v}, keys {ks}, but evaluate gives {e}: the parameter value is substituted and then resolved again"
    if t({"NOPE": 5}) != "{NOPE}":
        return "Template('{:p:}', p=Value('{NOPE}')) reads option NOPE although keys() is empty"


def f31_option_value_references_parameter():
    from labrea import Template
    t = Template("{A} {:b:}", b=Option("B"))
    o = {"A": "{:b:}", "B": 1}
    v, e = outcome(lambda: t.validate(o)), outcome(lambda: t(o))
    if v[0] == "err" and e[0] == "ok":
        return f"Template('{{A}} {{:b:}}', b=Option('B')) on {o}: validate fails ({v}) although evaluate succeeds ({e}): an option value refers to the template's parameter"


def f32_map_conflicting_keys():
    from labrea import Map
    from labrea.exceptions import EvaluationError
    m = Map(Option("A.X"), {"A": Option("XS"), "A.X": Option("YS")})
    o = {"XS": [1, 2], "YS": [3]}
    for name in ("explain", "validate", "keys"):
        try:
            getattr(m, name)(o)
        except EvaluationError:
            pass
        except Exception as e:  # noqa
            return f"Map(Option('A.X'), {{'A': ..., 'A.X': ...}}).{name}({o}) fails with {type(e).__name__} ({e}), not an EvaluationError"


def f33_datasetclass_under_apply_bypasses_request():
    from labrea import datasetclass
    from labrea.types import EvaluateRequest, _evaluate_request
    from labrea.runtime import handle

    @datasetclass
    class Inner:
        a: int = Option("A")
    for build, name in ((lambda: Inner >> (lambda inst: inst.a), "Inner >> f"), (lambda: Inner.bind(lambda inst: Value(inst.a)), "Inner.bind(f)")):
        seen = []

        def passthrough(req):
            seen.append(req.evaluatable)
            return _evaluate_request(req)
        e = build()
        with handle(EvaluateRequest, passthrough):
            e({"A": 3})
        if not any(x is Inner for x in seen):
            return f"{name}: a pass-through EvaluateRequest handler never saw the evaluation of the dataset class (seen: {[repr(x)[:40] for x in seen]})"


def scenarios():
    return {k: v for k, v in list(globals().items()) if k.startswith("f") and callable(v) and k[1].isdigit()}


def _main():
    import sys
    bad = 0
    for k, fn in scenarios().items():
        try:
            m = fn()
        except Exception as e:  # noqa
            m = f"CRASH {type(e).__name__}: {e}"
        print(k, "->", m or "holds")
        bad += m is not None
    sys.exit(1 if bad else 0)


def f24_scalar_shadows_default_section():
    w = WithDefaultOptions(Option("S.X", 7), {"S": {"X": 1}})
    o = {"S": 5}
    ks = w.keys(o)
    restricted = {}
    a, b = outcome(lambda: w(o)), outcome(lambda: w(restricted))
    if ks == set() and a != b:
        return f"keys({o}) = {ks} but evaluating on the restriction gives {b} instead of {a}: a scalar in the caller's options shadows a default section"


def f24b_preset_scalar_hides_caller_section():
    w = WithOptions(Option("S.X"), {"S": 5})
    o = {"S": {"X": 1}}
    ex = w.explain(o)
    v = outcome(lambda: w.validate(o))
    absent = {k for k in ex if k == "S.X" and "X" not in o.get("S", {})}
    if not absent and v[0] == "err":
        return f"explain({o}) = {ex}, none absent, yet validate fails: {v}"


if __name__ == "__main__":
    _main()
