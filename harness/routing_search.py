"""Witness search for C18 on the real code: a recording pass-through handler for every request type must observe every operation of an
evaluation (one evaluate request per node evaluated, cache/log/type requests) and leave results unchanged."""
from __future__ import annotations


def run_case(case):
    import labrea.runtime as rt
    from labrea import Option, dataset, switch, coalesce
    from labrea.types import EvaluateRequest, ValidateRequest, KeysRequest, ExplainRequest
    from labrea.cache import CacheGetRequest, CacheSetRequest, CacheExistsRequest, MemoryCache
    from labrea.logging import LogRequest
    from labrea.type_validation import TypeValidationRequest
    backend_calls = []

    class Spy(MemoryCache):
        def get(self, e, o):
            backend_calls.append("get"); return super().get(e, o)

        def set(self, e, o, v):
            backend_calls.append("set"); return super().set(e, o, v)

        def exists(self, e, o):
            backend_calls.append("exists"); return super().exists(e, o)

    @dataset(cache=Spy())
    def inner(a=Option("A", type=int)):
        return a

    @dataset(cache=Spy())
    def outer(x=inner, b=Option("B", 1)):
        return (x, b)
    seen = []
    defaults = dict(rt._DEFAULT_HANDLERS)
    handlers = {}
    for T in (EvaluateRequest, ValidateRequest, KeysRequest, ExplainRequest, CacheGetRequest, CacheSetRequest, CacheExistsRequest, LogRequest, TypeValidationRequest):
        def h(req, T=T):
            seen.append(T.__name__)
            return defaults[T](req)
        handlers[T] = h
    o = case["options"]
    msgs = []
    plain = {}
    for op in ("evaluate", "validate", "keys", "explain"):
        try:
            plain[op] = ("ok", getattr(outer, op)(dict(o)))
        except Exception as e:  # noqa
            plain[op] = ("err", type(e).__name__)
    for d in (inner, outer):
        d.cache._cache.clear()
    del backend_calls[:]
    with rt.handle(handlers):
        for op in ("evaluate", "validate", "keys", "explain"):
            del seen[:]
            before = len(backend_calls)
            try:
                got = ("ok", getattr(outer, op)(dict(o)))
            except Exception as e:  # noqa
                got = ("err", type(e).__name__)
            if got != plain[op]:
                msgs.append(f"{op} under pass-through handlers gives {got}, without {plain[op]}")
            used_backend = len(backend_calls) - before
            nreq = sum(2 if s == "CacheSetRequest" else 1 for s in seen if s.startswith("Cache"))   # the set handler stores and reads back
            if used_backend > nreq:
                msgs.append(f"{op}: {used_backend} cache backend calls but only {nreq} cache requests were issued")
            want = {"evaluate": "EvaluateRequest", "validate": "ValidateRequest", "keys": "KeysRequest", "explain": "ExplainRequest"}[op]
            if seen.count(want) < 2 and got[0] == "ok":
                msgs.append(f"{op}: nested {want}s not observed (saw {seen.count(want)})")
            if op == "evaluate" and got[0] == "ok" and "TypeValidationRequest" not in seen:
                msgs.append("evaluate: no TypeValidationRequest observed for Option('A', type=int)")
            if op == "evaluate" and got[0] == "ok" and "LogRequest" not in seen:
                msgs.append("evaluate: no LogRequest observed")
    # an Option whose value comes from its default is type-checked through a request as well
    del seen[:]
    with rt.handle(handlers):
        try:
            Option("ZZ.Y", 5, type=int)(dict(o))
        except Exception:  # noqa
            pass
    if "TypeValidationRequest" not in seen:
        msgs.append("Option('ZZ.Y', 5, type=int) evaluated from its default: no TypeValidationRequest observed")
    return msgs


def replay(case):
    m = run_case(case)
    return bool(m), f"case={case}\n" + ("\n".join(m) or "holds")


def search(seed=0):
    for o in ({"A": 1}, {"A": 2, "B": 3}, {}, {"A": 1, "LABREA": {"CACHE": {"DISABLED": True}}}):
        case = {"options": o}
        if run_case(case):
            return {"module": "harness.routing_search", "case": case}
    return None
