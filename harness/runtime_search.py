"""Witness search / replay for C14: well-nested histories on the REAL labrea.runtime against a stack model.
Used only to find concrete failing inputs for undischarged obligations (never as the deciding step)."""
from __future__ import annotations

import itertools
import random
import threading


def run_history(ops, start_with_runtime):
    """ops: list of tuples; returns (observed, expected) lists. Executed in a fresh thread."""
    from labrea import runtime
    from labrea.runtime import Request, Runtime

    class A(Request):
        def __init__(self):
            pass

    class Bq(Request):
        def __init__(self):
            pass
    types = {"A": A, "B": Bq}
    out = {}

    taggers = {}

    def tagger(t):
        # one handler object per tag: a derived runtime may be given the very object that is (or was) a registered default
        if t not in taggers:
            taggers[t] = lambda req: t
        return taggers[t]

    def body():
        observed, expected = [], []
        defaults = {}
        objs = {}          # name -> (Runtime object, overrides dict)
        stack = []         # model: list of override dicts
        cms = []           # entered runtime objects (for exit)
        base = {}
        if start_with_runtime == "inherit":
            runtime.inherit(parent)
            base.update({"A": "inh"})
        elif start_with_runtime:
            runtime.current_runtime()
        try:
            for op in ops:
                k = op[0]
                if k == "new":        # ("new", name, type, tag)
                    objs[op[1]] = (Runtime({types[op[2]]: tagger(op[3])}), {op[2]: op[3]})
                elif k == "derive":   # ("derive", name, from, type, tag): derive from object (or current if from is None)
                    if op[2] is None:
                        cur_ov = stack[-1] if stack else base
                        objs[op[1]] = (runtime.handle(types[op[3]], tagger(op[4])), {**cur_ov, op[3]: op[4]})
                    elif op[2] in objs:
                        src, ov = objs[op[2]]
                        before = dict(ov)
                        objs[op[1]] = (src.handle(types[op[3]], tagger(op[4])), {**ov, op[3]: op[4]})
                        assert objs[op[2]][1] == before
                elif k == "enter":    # ("enter", name)
                    if op[1] in objs:
                        r, ov = objs[op[1]]
                        r.__enter__()
                        cms.append(r)
                        stack.append(ov)
                elif k == "exit":     # ("exit", by_exception)
                    if cms:
                        r = cms.pop()
                        stack.pop()
                        if op[1]:
                            r.__exit__(ValueError, ValueError("x"), None)
                        else:
                            r.__exit__(None, None, None)
                elif k == "default":  # ("default", type, tag)
                    runtime.handle_by_default(types[op[1]], tagger(op[2]))
                    defaults[op[1]] = op[2]
                elif k == "run":      # ("run", type)
                    ov = stack[-1] if stack else base
                    exp = ov.get(op[1], defaults.get(op[1], "TypeError"))
                    try:
                        got = types[op[1]]().run()
                    except TypeError:
                        got = "TypeError"
                    except Exception as e:  # noqa
                        got = f"{type(e).__name__}"
                    observed.append(got)
                    expected.append(exp)
        except Exception as e:  # noqa
            observed.append(f"CRASH {type(e).__name__}: {e}")
            expected.append("no crash")
        out["r"] = (observed, expected)
    parent = threading.current_thread()
    th = threading.Thread(target=body)
    if start_with_runtime == "inherit":
        def launcher():
            nonlocal parent
            parent = threading.current_thread()
            with Runtime({A: tagger("inh")}):
                th.start()
                th.join()
        lt = threading.Thread(target=launcher)
        lt.start()
        lt.join()
    else:
        th.start()
        th.join()
    return out["r"]


def replay(case):
    obs, exp = run_history([tuple(o) for o in case["ops"]], case["start_with_runtime"])
    bad = obs != exp
    return bad, f"history={case['ops']} start_with_runtime={case['start_with_runtime']}\nobserved={obs}\nrequired={exp}"


ALPHABET = [("new", "r", "A", "r"), ("new", "s", "A", "s"), ("derive", "d", None, "A", "d"), ("derive", "e", "r", "B", "e"),
            ("derive", "f", None, "A", "defA"), ("derive", "g", "r", "A", "defA"), ("derive", "h", "r", "B", "defB"),
            ("enter", "r"), ("enter", "s"), ("enter", "d"), ("enter", "e"), ("enter", "f"), ("enter", "g"), ("enter", "h"), ("exit", False), ("exit", True),
            ("default", "A", "defA"), ("default", "B", "defB"), ("default", "A", "defA2"), ("run", "A"), ("run", "B")]


def search(seed=0, budget=4000, max_len=7):
    rnd = random.Random(seed)
    # a few directed histories first (the shapes the property statement names), then random ones
    directed = [
        [("new", "r", "A", "r"), ("enter", "r"), ("run", "A"), ("exit", False), ("default", "A", "defA"), ("run", "A")],
        [("default", "A", "defA"), ("new", "r", "A", "r"), ("enter", "r"), ("enter", "r"), ("exit", False), ("run", "A"), ("exit", False), ("run", "A")],
        [("run", "B"), ("default", "B", "defB"), ("run", "B")],
        [("default", "A", "defA"), ("run", "A"), ("default", "A", "defA2"), ("run", "A")],
        [("new", "r", "A", "r"), ("derive", "e", "r", "B", "e"), ("enter", "r"), ("run", "B"), ("exit", True), ("enter", "e"), ("run", "A"), ("run", "B")],
        # a runtime derived with the handler that happens to be the registered default keeps THAT handler when the default changes
        [("default", "A", "defA"), ("derive", "f", None, "A", "defA"), ("default", "A", "defA2"), ("enter", "f"), ("run", "A"), ("exit", False), ("run", "A")],
        [("default", "A", "defA"), ("new", "r", "A", "r"), ("derive", "g", "r", "A", "defA"), ("default", "A", "defA2"), ("enter", "g"), ("run", "A")],
    ]
    for swr in (False, True, "inherit"):
        for h in directed:
            obs, exp = run_history(h, swr)
            if obs != exp:
                return {"module": "harness.runtime_search", "case": {"ops": h, "start_with_runtime": swr}}
    for _ in range(budget):
        n = rnd.randint(2, max_len)
        h = [rnd.choice(ALPHABET) for _ in range(n)] + [("run", "A"), ("run", "B")]
        swr = rnd.choice([False, True, "inherit"])
        obs, exp = run_history(h, swr)
        if obs != exp:
            # shrink greedily
            changed = True
            while changed:
                changed = False
                for i in range(len(h)):
                    h2 = h[:i] + h[i + 1:]
                    o2, e2 = run_history(h2, swr)
                    if o2 != e2:
                        h = h2
                        changed = True
                        break
            return {"module": "harness.runtime_search", "case": {"ops": h, "start_with_runtime": swr}}
    return None
