"""Bounded check / witness search for C09 on the real code: templates over a small alphabet against an independent substitution
(written from the statement: {KEY} -> str(option), transitively; {:name:} -> str(parameter under the same options); escaped braces literal),
and keys()/explain() against the set of keys that substitution looks up."""
from __future__ import annotations

import itertools
import random
import re

TOKENS = ["lit", "{A}", "{S.X}", "{:p:}", "\\{", "\\}", "-", "{B}"]


class Missing(Exception):
    def __init__(self, key):
        self.key = key


def lookup(key, o, reads):
    cur = o
    for part in key.split("."):
        if isinstance(cur, dict) and part in cur:
            cur = cur[part]
        else:
            raise Missing(key)
    reads.add(key)
    return cur


def subst(text, o, params, reads, depth=0):
    """independent substitution"""
    if depth > 6:
        raise RecursionError
    keys = re.findall(r"(?<!\\){([^\\]*?)}", text)
    if not keys:
        return text.replace("\\{", "{").replace("\\}", "}")
    if len(set(keys)) == 1 and text == "{" + keys[0] + "}":
        k = keys[0]
        v = params[k[1:-1]] if re.match(r"^:[A-Za-z_]\w*:$", k) else lookup(k, o, reads)
        return resolve_value(v, o, params, reads, depth + 1)
    for k in set(keys):
        v = params[k[1:-1]] if re.match(r"^:[A-Za-z_]\w*:$", k) else lookup(k, o, reads)
        text = text.replace("{" + k + "}", str(v))
    return subst(text, o, params, reads, depth + 1)


def resolve_value(v, o, params, reads, depth):
    if isinstance(v, str):
        return subst(v, o, params, reads, depth)
    if isinstance(v, list):
        return [resolve_value(x, o, params, reads, depth) for x in v]
    if isinstance(v, dict):
        return {k: resolve_value(x, o, params, reads, depth) for k, x in v.items()}
    return v


def check(text, o):
    from labrea import Template, Option
    from labrea.exceptions import EvaluationError, KeyNotFoundError
    msgs = []
    needs_p = "{:p:}" in text
    try:
        t = Template(text, p=Option("P", "pv")) if needs_p else Template(text)
    except ValueError:
        return msgs
    reads = set()
    try:
        params = {"p": (o["P"] if "P" in o else "pv")} if needs_p else {}
        if needs_p and "P" in o:
            reads.add("P")
        want = ("ok", str(subst(text, o, params, reads)))
    except Missing as m:
        want = ("missing", m.key)
    except RecursionError:
        return msgs
    try:
        got = ("ok", t(o))
    except KeyNotFoundError as e:
        got = ("missing", e.key)
    except EvaluationError as e:
        x = e
        while x.__cause__ is not None:
            x = x.__cause__
        got = ("missing", getattr(x, "key", None)) if isinstance(x, KeyNotFoundError) else ("err", type(x).__name__)
    if got[0] != want[0] or (got[0] == "ok" and got[1] != want[1]):
        msgs.append(f"Template({text!r}) on {o}: evaluate gives {got}, independent substitution gives {want}")
    if want[0] == "ok":
        try:
            ks, ex = t.keys(o), t.explain(o)
            if not reads <= ks:
                msgs.append(f"Template({text!r}) on {o}: substitution reads {sorted(reads)} but keys() reports {sorted(ks)}")
            if not ks <= ex:
                msgs.append(f"Template({text!r}) on {o}: explain {sorted(ex)} does not cover keys {sorted(ks)}")
        except Exception as e:  # noqa
            msgs.append(f"Template({text!r}) on {o}: keys/explain raised {e!r} although the substitution succeeds")
    # an Option whose value or default is templated reports the reads as well
    opt = Option("V", text) if not needs_p else None
    if opt is not None and want[0] == "ok":
        try:
            if not reads <= opt.keys(o) | {"V"}:
                msgs.append(f"Option('V', default={text!r}) on {o}: reads {sorted(reads)} not reported by keys {sorted(opt.keys(o))}")
        except Exception:  # noqa
            pass
    return msgs


DICTS = [{}, {"A": 1}, {"A": "x", "B": 2, "S": {"X": 3}}, {"A": "{B}", "B": "b"}, {"A": "{S.X}", "S": {"X": "{B}"}, "B": 0}, {"A": ["{B}"], "B": 1, "P": "q"},
         {"A": None, "S": {"X": False}, "B": ""}, {"B": "\\{k\\}", "A": "{B}"}]


def replay(case):
    m = check(case["text"], case["options"])
    return bool(m), f"case={case}\n" + ("\n".join(m[:4]) or "holds")


def search(seed=0, budget=300):
    rnd = random.Random(seed)
    n = 0
    fixed = ["part-\\{id\\}.csv", "\\{\\}", "{A}", "{A}-{B}", "x{S.X}y", "{:p:}/{A}", "lit"]
    texts = fixed + ["".join(rnd.choice(TOKENS) for _ in range(rnd.randint(1, 4))) for _ in range(budget)]
    for text in texts:
        for o in DICTS:
            n += 1
            try:
                if check(text, o):
                    return {"module": "harness.template_search", "case": {"text": text, "options": o}}, n
            except Exception:  # noqa  harness trouble is never a violation
                continue
    return None, n
