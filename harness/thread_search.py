"""Bounded check for C15 on the real code: deterministic two/three-thread schedules at operation granularity (threading.Event hand-offs)."""
from __future__ import annotations

import itertools
import random
import threading


class Sched:
    """runs per-thread operation lists under a given global order of (thread, op index)"""

    def __init__(self, programs, order):
        self.programs, self.order = programs, order
        self.turn = threading.Condition()
        self.pos = 0
        self.errors = []

    def worker(self, tid):
        for i, op in enumerate(self.programs[tid]):
            with self.turn:
                while self.pos < len(self.order) and self.order[self.pos] != (tid, i):
                    if not self.turn.wait(timeout=5):
                        self.errors.append(f"schedule stuck at {self.pos}")
                        return
                try:
                    op()
                except Exception as e:  # noqa
                    self.errors.append(f"thread {tid} op {i}: {type(e).__name__}: {e}")
                self.pos += 1
                self.turn.notify_all()

    def run(self):
        ts = [threading.Thread(target=self.worker, args=(t,)) for t in range(len(self.programs))]
        for t in ts:
            t.start()
        for t in ts:
            t.join(10)


def interleavings(lens, rnd, k):
    base = [(t, i) for t, n in enumerate(lens) for i in range(n)]
    outs = []
    for _ in range(k):
        idx = [0] * len(lens)
        order = []
        while any(idx[t] < lens[t] for t in range(len(lens))):
            t = rnd.choice([t for t in range(len(lens)) if idx[t] < lens[t]])
            order.append((t, idx[t]))
            idx[t] += 1
        outs.append(order)
    return outs


def case_contexts(order_seed):
    """handler contexts are thread-local, also for ONE runtime object shared by the threads"""
    from labrea.runtime import Request, Runtime
    import labrea.runtime as rt

    class R(Request):
        def __init__(self):
            pass
    tag = lambda t: (lambda req: t)
    shared = Runtime({R: tag("shared")})
    obs = {0: [], 1: []}
    cms = {0: [], 1: []}

    def enter(t, r):
        def f():
            r.__enter__(); cms[t].append(r)
        return f

    def leave(t):
        def f():
            cms[t].pop().__exit__(None, None, None)
        return f

    def ask(t):
        def f():
            try:
                obs[t].append(R().run())
            except TypeError:
                obs[t].append("TypeError")
        return f
    own = {0: Runtime({R: tag("own0")}), 1: Runtime({R: tag("own1")})}
    progs = [[enter(t, own[t]), ask(t), enter(t, shared), ask(t), leave(t), ask(t), leave(t), ask(t)] for t in (0, 1)]
    want = {t: [f"own{t}", "shared", f"own{t}", "TypeError"] for t in (0, 1)}
    rnd = random.Random(order_seed)
    msgs = []
    for order in interleavings([8, 8], rnd, 1):
        s = Sched(progs, order)
        s.run()
        if s.errors or obs != want:
            msgs.append(f"contexts: schedule {order}: observed {obs}, expected {want}; errors {s.errors[:2]}")
    return msgs


def case_register(order_seed):
    from labrea.overload import Overloaded
    from labrea import Option, Value
    ov = Overloaded(Option("K"), {})
    progs = [[(lambda t=t, i=i: ov.register((t, i), Value((t, i)))) for i in range(4)] for t in range(3)]
    s = Sched(progs, interleavings([4, 4, 4], random.Random(order_seed), 1)[0])
    s.run()
    missing = [(t, i) for t in range(3) for i in range(4) if (t, i) not in ov.lookup]
    return ([f"register: {missing} lost; errors {s.errors[:2]}"] if missing or s.errors else [])


def case_evaluate(order_seed):
    from labrea import dataset, Option

    @dataset
    def d(a=Option("A")):
        return ("v", a)
    res = {}
    progs = [[(lambda t=t, i=i: res.__setitem__((t, i), d({"A": (t + i) % 3}))) for i in range(4)] for t in range(3)]
    s = Sched(progs, interleavings([4, 4, 4], random.Random(order_seed), 1)[0])
    s.run()
    bad = [(k, v) for k, v in res.items() if v != ("v", (k[0] + k[1]) % 3)]
    return ([f"evaluate: {bad[:3]} errors {s.errors[:2]}"] if bad or s.errors else [])


def case_inherit(order_seed):
    from labrea.runtime import Request, Runtime
    import labrea.runtime as rt

    class R(Request):
        def __init__(self):
            pass
    out = {}

    def parent():
        with Runtime({R: lambda r: "parent-ctx"}):
            me = threading.current_thread()

            def child():
                rt.inherit(me)
                out["child"] = R().run()
            c = threading.Thread(target=child); c.start(); c.join()
        out["after"] = "left"
    p = threading.Thread(target=parent); p.start(); p.join()
    return [] if out.get("child") == "parent-ctx" else [f"inherit: child served by {out.get('child')!r}"]


CASES = {"contexts": case_contexts, "register": case_register, "evaluate": case_evaluate, "inherit": case_inherit}


def replay(case):
    m = CASES[case["case"]](case["seed"])
    return bool(m), "\n".join(m) or "holds"


def search(seed=0, budget=20):
    n = 0
    for name, f in CASES.items():
        for s in range(budget):
            n += 1
            try:
                m = f(seed * 1000 + s)
            except Exception as e:  # noqa
                m = []
            if m:
                return {"module": "harness.thread_search", "case": {"case": name, "seed": seed * 1000 + s}}, n
    return None, n
