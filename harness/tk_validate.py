"""Bounded validation of (a) the assumed contract of confectioner.resolve (theory.resolve_axioms) and (b) the contract of
labrea.option._templated_keys (theory.tk_contract_axioms, used modularly by Option.keys/explain) against the REAL functions."""
from __future__ import annotations

import copy
import itertools
import random

import confectioner.templating as ct
from confectioner.templating import resolve, get_dotted_key

VALUES = [1, None, "lit", "{A}", "{A}-{B}", "{S.X}", ["{A}", 2], {"k": "{B}"}, "{NOPE}", "x{S.X}y", ["{NOPE}"], "\\{A\\}", "{S}", [], {}, {"k": ["{A}", {"j": "{S.X}"}]}]
DICTS = [{}, {"A": 1}, {"A": "a", "B": 2}, {"A": "{B}", "B": "b"}, {"A": "{B}", "B": "{S.X}", "S": {"X": 0}}, {"S": {"X": "{A}"}, "A": 5}, {"A": ["{B}"], "B": 1},
         {"S": 5, "A": 1}, {"A": None, "B": "", "S": {"X": False}}, {"A": "{NOPE}"}, {"A": 1, "B": 2, "S": {"X": 3, "Y": 4}, "Z": 9}]


def has(o, k):
    try:
        get_dotted_key(k, o)
        return True
    except (KeyError, TypeError):
        return False


def outcome(f):
    try:
        return ("ok", f())
    except Exception as e:  # noqa
        return ("err", e)


def read_set(v, o):
    """keys looked up (at the root dictionary) while resolve(v, o) runs"""
    reads = set()
    real = ct.get_dotted_key

    def spy(dotted, options):
        if isinstance(options, dict) and "@env" in options and "." not in "":   # resolve passes {**options, '@env': ...}: the root
            reads.add(dotted)
        return real(dotted, options)
    ct.get_dotted_key = spy
    try:
        r = outcome(lambda: resolve(copy.deepcopy(v), copy.deepcopy(o)))
    finally:
        ct.get_dotted_key = real
    return r, reads


def restrict(o, S):
    from confectioner.templating import set_dotted_key
    r = {}
    for k in sorted(S):
        if has(o, k):
            set_dotted_key(k, copy.deepcopy(get_dotted_key(k, o)), r)
    return r


def validate():
    from labrea.option import _templated_keys
    from labrea.exceptions import KeyNotFoundError
    fails, n = [], 0
    for v in VALUES:
        for o in DICTS:
            n += 1
            rs, RD = read_set(v, o)
            tk = outcome(lambda: _templated_keys(copy.deepcopy(v), copy.deepcopy(o)))
            tx = outcome(lambda: _templated_keys(copy.deepcopy(v), copy.deepcopy(o), explain=True))
            # resolve axioms
            if rs[0] == "err" and not isinstance(rs[1], (KeyError, TypeError)):
                fails.append(("resolve fails only with KeyError/TypeError", v, o, repr(rs[1])))
            if rs[0] == "err" and isinstance(rs[1], KeyError) and has(o, rs[1].args[0]):
                fails.append(("resolve KeyError names an absent key", v, o, rs[1].args[0]))
            if rs[0] == "ok" and not all(has(o, k) for k in RD):
                fails.append(("read set present on success", v, o, RD))
            if not isinstance(v, (str, list, dict)) and not (rs[0] == "ok" and rs[1] == v and not RD):
                fails.append(("template-free scalars unchanged", v, o))
            if rs[0] == "ok":
                o2 = restrict(o, RD)
                r2, RD2 = read_set(v, o2)
                if not (r2[0] == "ok" and r2[1] == rs[1] and RD2 == RD):
                    fails.append(("resolve depends on o only through its read set", v, o, RD))
            # structure of resolve (theory.resolve_structure_axioms)
            import re as _re
            if isinstance(v, str):
                tk_ = set(_re.findall(ct.TEMPLATE_KEY, v))
                sub = {k: read_set(get_dotted_key(k, o), o) for k in tk_ if has(o, k)}
                if rs[0] == "ok":
                    for k in tk_:
                        if not (has(o, k) and sub[k][0][0] == "ok" and k in RD and sub[k][1] <= RD):
                            fails.append(("RS: referenced keys resolve and their reads are reads", v, o, k))
                    for k in RD:
                        if not (k in tk_ or any(k in sub[j][1] for j in sub)):
                            fails.append(("RS: every read comes from a referenced key", v, o, k))
                else:
                    if not any((not has(o, k)) or sub[k][0][0] != "ok" for k in tk_):
                        fails.append(("RS: a failing string has a failing reference", v, o))
                    if isinstance(rs[1], KeyError):
                        kk = rs[1].args[0]
                        okk = any(((not has(o, k)) and kk == k) or (has(o, k) and sub[k][0][0] == "err" and isinstance(sub[k][0][1], KeyError) and sub[k][0][1].args[0] == kk) for k in tk_)
                        if not okk:
                            fails.append(("RS: the KeyError names the failing reference or what its value's substitution names", v, o, kk))
            if isinstance(v, (list, dict)):
                kids = list(v.values()) if isinstance(v, dict) else list(v)
                subs = [read_set(c, o) for c in kids]
                if rs[0] == "ok":
                    if not all(s_[0][0] == "ok" and s_[1] <= RD for s_ in subs) or not RD <= set().union(*[s_[1] for s_ in subs], set()):
                        fails.append(("RC: a container resolves elementwise", v, o))
                elif not any(s_[0][0] != "ok" for s_ in subs):
                    fails.append(("RC: a failing container has a failing element", v, o))
                elif isinstance(rs[1], KeyError) and not any(s_[0][0] == "err" and isinstance(s_[0][1], KeyError) and s_[0][1].args[0] == rs[1].args[0] for s_ in subs):
                    fails.append(("RC: a container's KeyError is an element's KeyError", v, o))
            # contract of _templated_keys
            if tx[0] != "ok":
                fails.append(("explain variant never raises", v, o, repr(tx[1])))
                continue
            TX = tx[1]
            if tk[0] == "ok":
                TK = tk[1]
                if not all(has(o, k) for k in TK):
                    fails.append(("TK1 present-only", v, o, TK))
                if rs[0] != "ok":
                    fails.append(("TK4 keys ok => substitution ok", v, o, repr(rs[1])))
                elif not RD <= TK:
                    fails.append(("TK-RD reads reported", v, o, RD, TK))
                if not TK <= TX:
                    fails.append(("explain covers keys", v, o, TK, TX))
                if not all(has(o, k) for k in TX):
                    fails.append(("TKok => listed keys present", v, o, TX))
                o2 = restrict(o, TK)
                tk2 = outcome(lambda: _templated_keys(copy.deepcopy(v), copy.deepcopy(o2)))
                tx2 = outcome(lambda: _templated_keys(copy.deepcopy(v), copy.deepcopy(o2), explain=True))
                if not (tk2[0] == "ok" and tk2[1] == TK and tx2[0] == "ok" and tx2[1] == TX):
                    fails.append(("TK2 restriction-stable", v, o, TK, tk2))
            else:
                x = tk[1]
                if not isinstance(x, KeyNotFoundError) or has(o, x.key) or x.key not in TX:
                    fails.append(("TK3 failure is a missing-key error naming an absent listed key", v, o, repr(x), TX))
                if rs[0] == "ok":
                    fails.append(("TK3 keys fail => substitution fails", v, o))
            if rs[0] == "err" and isinstance(rs[1], KeyError) and rs[1].args[0] not in TX:
                fails.append(("TX-miss: the key whose absence breaks the substitution is listed", v, o, rs[1].args[0], TX))
            if any(not has(o, k) for k in TX) and tk[0] == "ok":
                fails.append(("TX-b: an absent listed key makes keys fail", v, o, TX))
    return fails, n


if __name__ == "__main__":
    f, n = validate()
    print(n, len(f))
    for x in f[:12]:
        print(x)
