"""Bounded validation, against the REAL confectioner / re / str, of the assumed clauses the Template proofs use
(theory.template_axioms: OptTheory.resolve.params, OptTheory.resolve.escape, P-str.param).  This validates ASSUMPTIONS; it is never
counted as proof, and a failing clause blocks every proof that uses it.

Universe: template texts of up to 3 tokens over {literal, {A}, {B}, {S.X}, {:p:}, {:q:}, escaped braces}; option dictionaries without
':name:' keys whose values may be templated (depth 2), none of whose text-embedded references points at a section (A-plainrefs, F28) and
none of whose values refers to a parameter (A-noparam, F31); parameter dictionaries over {:p:, :q:} whose values are escaped strings."""
from __future__ import annotations

import copy
import itertools
import re

from confectioner import mix
from confectioner.templating import find_template_keys, get_dotted_key, resolve

from labrea.template import TEMPLATE_PARAM

TOKENS = ["x", "{A}", "{B}", "{S.X}", "{:p:}", "{:q:}", "\\{A\\}", " "]
DICTS = [{}, {"A": 1}, {"A": "a", "B": 2}, {"A": "{B}", "B": "b"}, {"A": "{B}", "B": "{S.X}", "S": {"X": 0}}, {"S": {"X": "{A}"}, "A": 5},
         {"S": 5, "A": 1}, {"A": None, "B": "", "S": {"X": False}}, {"A": "{NOPE}", "B": 1}, {"A": 1, "B": 2, "S": {"X": 3, "Y": 4}, "Z": 9},
         {"A": "v{B}w", "B": "b", "S": {"X": "{B}{B}"}}, {"B": "\\{lit\\}", "A": "{B}"}, {"A": [1, "{B}"], "B": 2}]
RAW_PARAM_VALUES = ["v", "{A}", "{NOPE}", "a{b", "}", "\\{A\\}", "5", "{'x': 1}", ""]


def literal(x: str) -> str:
    """the escaped form (theory.literal); that labrea.template._literal builds exactly this is NOT assumed here: the executor runs the real body"""
    return x.replace("{", "\\{").replace("}", "\\}")


def has(o, k):
    try:
        get_dotted_key(k, o)
        return True
    except (KeyError, TypeError):
        return False


def out(f):
    try:
        return ("ok", f())
    except Exception as e:  # noqa
        return ("err", e)


def templates():
    seen = set()
    for n in (1, 2, 3):
        for combo in itertools.product(TOKENS, repeat=n):
            t = "".join(combo)
            if t not in seen:
                seen.add(t)
                yield t


def param_dicts():
    for vp in [None] + RAW_PARAM_VALUES[:5]:
        for vq in [None] + RAW_PARAM_VALUES[3:]:
            raw = {}
            if vp is not None:
                raw[":p:"] = vp
            if vq is not None:
                raw[":q:"] = vq
            yield raw


def validate(full=False, quick=False):
    """quick: texts of up to 2 tokens (about 25k cases, 3 s); default: up to 3 tokens; full: additionally escapes up to length 5"""
    fails, n = [], 0
    # ---- P-str.param: the regex and the f-string/slice pair
    from labrea import template as tmod
    for name in ("p", "q", "_x1", "Name"):
        k = f":{name}:"
        if not TEMPLATE_PARAM.match(k) or k[1:-1] != name or "." in k:
            fails.append(("pkey(name) is a top-level parameter key and unp(pkey(name)) = name", name))
    for k in ("A", "S.X", ":p:.x", ":p", "p:", "::", ":1a:", ":a b:"):
        if TEMPLATE_PARAM.match(k) and f":{k[1:-1]}:" != k:
            fails.append(("isparam(k) => pkey(unp(k)) = k", k))
    # ---- OptTheory.resolve.escape (exhaustive over a 5-letter alphabet up to length 5, plus the real _literal)
    alphabet = ["{", "}", "\\", "a", ":"]
    for ln in range(0, 6 if full else 5):
        for combo in itertools.product(alphabet, repeat=ln):
            x = "".join(combo)
            n += 1
            lx = literal(x)
            if find_template_keys(lx):
                fails.append(("an escaped string has no template keys", x, lx))
                continue
            for o in ({}, {"a": 1}):
                r = out(lambda: resolve(lx, o))
                if r != ("ok", x):
                    fails.append(("resolve(literal(x)) = x", x, repr(r)))
    # ---- OptTheory.resolve.params
    temps = [t for t in templates() if not quick or sum(t.count(tok) for tok in ("{A}", "{B}", "{S.X}", "{:p:}", "{:q:}", "x", " ")) + t.count("\\{A\\}") <= 2]
    results = {}
    for t in temps:
        tk = set(find_template_keys(t))
        for oi, o in enumerate(DICTS):
            sub = {k: out(lambda k=k: resolve(copy.deepcopy(get_dotted_key(k, o)), copy.deepcopy(o))) for k in tk if not TEMPLATE_PARAM.match(k) and has(o, k)}
            for raw in param_dicts():
                P = {k: literal(v) for k, v in raw.items()}
                n += 1
                M = mix(copy.deepcopy(o), P)
                r = out(lambda: resolve(t, M))
                want_ok = all((k in P) if TEMPLATE_PARAM.match(k) else (k in sub and sub[k][0] == "ok") for k in tk)
                if (r[0] == "ok") != want_ok:
                    fails.append(("RS-P(a): resolves iff every parameter is bound and every referenced option resolves under the caller's options", t, o, raw, repr(r)))
                    continue
                if r[0] == "err":
                    e = r[1]
                    if isinstance(e, KeyError):
                        kk = e.args[0]
                        named = any(((TEMPLATE_PARAM.match(k) and k not in P) or (not TEMPLATE_PARAM.match(k) and not has(o, k))) and kk == k for k in tk) or \
                            any(k in sub and sub[k][0] == "err" and isinstance(sub[k][1], KeyError) and sub[k][1].args[0] == kk for k in tk)
                        if not named:
                            fails.append(("RS-P(c): the KeyError names the failing reference or what its value's substitution names", t, o, raw, kk))
                    elif not isinstance(e, TypeError):
                        fails.append(("RS-P: fails only with KeyError/TypeError", t, o, raw, repr(e)))
                    continue
                # (b) the value is a function of the parameter texts and the resolved referenced values
                sig = (t, tuple(sorted((k, raw[k]) for k in tk if TEMPLATE_PARAM.match(k))), tuple(sorted((k, repr(sub[k][1])) for k in tk if not TEMPLATE_PARAM.match(k))))
                val = repr(r[1])
                if results.setdefault(sig, val) != val:
                    fails.append(("RS-P(b): equal parameter texts and equal resolved references give equal results", t, o, raw, val, results[sig]))
    return fails, n


if __name__ == "__main__":
    import sys
    f, n = validate("--full" in sys.argv)
    print(n, len(f))
    for x in f[:15]:
        print(x)
