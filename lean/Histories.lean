/-
  The step from one-operation obligations to whole histories (DESIGN.md section 4 / 12: "the standard invariant argument"),
  mechanised once, abstractly.  Nothing about labrea is assumed here: the z3-discharged obligations of the checks are the
  instances of the hypotheses `init`, `step` and `obs` below

    C01/C02/C17   State := cache contents (ghost view sigma),  Op := one public evaluate/validate/keys call with its options,
                  Inv  := every stored value is the memo-free value of its fingerprint class,
                  Good := the call returns the memo-free outcome (and runs the body only on a miss)
    C14           State := thread -> runtime table with its restore stacks, Op := enter/exit/run/handle/..., Inv := Rep

  and the conclusion is the statement quantified over ALL finite histories.
-/

namespace Histories

variable {State Op : Type}

/-- `Reach step s0 s`: `s` is reached from `s0` by a finite history of operations -/
inductive Reach (step : State → Op → State → Prop) (s0 : State) : State → Prop
  | init : Reach step s0 s0
  | next {s s' : State} (op : Op) : Reach step s0 s → step s op s' → Reach step s0 s'

/-- an invariant established initially and preserved by every single operation holds after every history -/
theorem inv_of_reach {step : State → Op → State → Prop} {Inv : State → Prop} {s0 : State}
    (init : Inv s0)
    (pres : ∀ s op s', Inv s → step s op s' → Inv s') :
    ∀ s, Reach step s0 s → Inv s := by
  intro s h
  induction h with
  | init => exact init
  | next op _ hstep ih => exact pres _ op _ ih hstep

/-- if, under the invariant, every single operation behaves well, then every operation of every history behaves well -/
theorem good_along_histories {step : State → Op → State → Prop} {Inv : State → Prop}
    {Good : State → Op → State → Prop} {s0 : State}
    (init : Inv s0)
    (pres : ∀ s op s', Inv s → step s op s' → Inv s')
    (obs : ∀ s op s', Inv s → step s op s' → Good s op s') :
    ∀ s op s', Reach step s0 s → step s op s' → Good s op s' := by
  intro s op s' hr hs
  exact obs s op s' (inv_of_reach init pres s hr) hs

/-- "at most once per key": if a well-behaved operation never re-runs a body whose key is already stored, and stored keys are never
    dropped, then along any history a key that has been stored stays stored (so its body is not run again) -/
theorem stored_stays_stored {Key : Type} {step : State → Op → State → Prop} {stored : State → Key → Prop} {s0 : State}
    (mono : ∀ s op s' k, step s op s' → stored s k → stored s' k) :
    ∀ s s' k, Reach step s0 s → Reach step s s' → stored s k → stored s' k := by
  intro s s' k _ h2 hk
  induction h2 with
  | init => exact hk
  | next op _ hstep ih => exact mono _ op _ k hstep ih

end Histories
