"""./check <property> [--tier quick|thorough] [--replay FILE] [--update-baseline]

Exit 0: held on everything explored (KNOWN-FINDING / UNDECIDED lines possible) - 1: VIOLATION - 3: checker crash.
"""
from __future__ import annotations

import argparse
import importlib
import json
import os
import sys
import time
import traceback

ROOT = os.path.dirname(os.path.dirname(os.path.abspath(__file__)))
sys.path.insert(0, ROOT)

from pyvc import theory as T  # noqa: E402
from pyvc.extract import Repo, DROPPED  # noqa: E402
from pyvc.solve import discharge_split, VC  # noqa: E402

BASELINE = os.path.join(ROOT, "baseline_obligations.json")
FINDINGS = os.path.join(ROOT, "known_findings.json")


def load_json(path, default):
    try:
        return json.load(open(path))
    except FileNotFoundError:
        return default


def group_of(r):
    m = r.meta or {}
    return f"{m.get('cls', '?')}:{m.get('law', '?')}"


def main(argv=None):
    ap = argparse.ArgumentParser()
    ap.add_argument("prop")
    ap.add_argument("--tier", default=os.environ.get("VERIF_TIER", "quick"))
    ap.add_argument("--replay")
    ap.add_argument("--update-baseline", action="store_true")
    args = ap.parse_args(argv)
    pid = args.prop.upper()
    seed = int(os.environ.get("VERIF_SEED", "0") or 0)
    t0 = time.time()
    try:
        mod = importlib.import_module(f"contracts.prop_{pid.lower()}")
    except ModuleNotFoundError:
        print(f"no check for {pid}")
        return 3
    if args.replay:
        from harness import replay
        return replay.run(args.replay)
    try:
        return run_check(mod, pid, args.tier, seed, t0, args.update_baseline)
    except Exception:
        traceback.print_exc()
        print(f"CHECKER-CRASH property={pid}")
        return 3


def run_check(mod, pid, tier, seed, t0, update_baseline):
    repo = Repo()
    bundle = mod.build(repo, tier, seed)
    vcs = bundle["vcs"]
    sanity = bundle.get("sanity", [])
    results = discharge_split(vcs + sanity, seeds=(1, 2, 3) if tier == "thorough" else ()) if (vcs or sanity) else []
    res_main = results[:len(vcs)] + bundle.get("results", [])
    res_sanity = results[len(vcs):] + bundle.get("sanity_results", [])
    baseline = load_json(BASELINE, {}).get(pid, {})
    findings = [f for f in load_json(FINDINGS, {"findings": []})["findings"] if f["property"] == pid]

    groups = {}
    for r in res_main:
        groups.setdefault(group_of(r), []).append(r)
    # syntactic / structural obligations (decided by the generator itself over the AST): name, ok, detail, group
    for s in bundle.get("syntactic", []):
        groups.setdefault(s["group"], []).append(s)

    def ok(x):
        return x["ok"] if isinstance(x, dict) else x.discharged

    n_obl = sum(len(v) for v in groups.values())
    n_dis = sum(1 for v in groups.values() for x in v if ok(x))
    failing = {g: [x for x in v if not ok(x)] for g, v in groups.items()}
    failing = {g: v for g, v in failing.items() if v}
    violations, undecided_lines, known_lines = [], [], []
    from harness import replay as replay_mod  # noqa: F811

    # undecided functions (constructs outside the subset): never violations
    for fn, reasons in bundle.get("undecided", []):
        undecided_lines.append(f"UNDECIDED function={fn} reason={'; '.join(reasons)}")
        # a function out of the verifier's reach: the bounded stand-in (search on the real code) decides for this run
        search = bundle.get("witness")
        if search is not None:
            wit = search(f"undecided:{fn}", [fn], seed)
            if wit is not None:
                from harness import replay as _rp
                path = _rp.write(pid, f"undecided:{fn}", wit, [fn])
                violations.append(f"VIOLATION property={pid} replay={path}")
    # vacuity: sanity obligations must NOT be provable
    for r in res_sanity:
        if r.status == "unsat":
            undecided_lines.append(f"UNDECIDED sanity obligation {r.name} was provable: hypotheses may be vacuous")
            failing.setdefault("sanity", []).append(r)
    if n_obl == 0:
        print(f"CHECKER-CRASH property={pid} zero obligations generated")
        return 3

    # replay recorded witnesses of known findings on the real code
    from harness import replay as replay_mod
    for f in findings:
        if f.get("status") == "fixed":
            continue
        still = replay_mod.finding_still_fails(f)
        if still:
            known_lines.append(f"KNOWN-FINDING: property={pid} {f['id']} {f['what']}")

    for fr in load_json(FINDINGS, {}).get("fixed_replays", []):
        if fr["property"] == pid and replay_mod.finding_still_fails({"witness": fr["witness"]}):
            path = replay_mod.write(pid, "fixed-finding-returned", fr["witness"], [fr.get("commit", "")])
            violations.append(f"VIOLATION property={pid} replay={path}")

    for g, wit in bundle.get("bounded_witnesses", []):
        path = replay_mod.write(pid, g, wit, [g])
        violations.append(f"VIOLATION property={pid} replay={path}")

    hashes = bundle.get("hashes", {})
    for g, bad in sorted(failing.items()):
        if g == "sanity":
            continue
        names = [x["name"] if isinstance(x, dict) else x.name for x in bad]
        wit = None
        search = bundle.get("witness")
        if search is not None:
            try:
                wit = search(g, names, seed)
            except Exception as e:  # pragma: no cover
                undecided_lines.append(f"UNDECIDED witness search for {g} crashed: {type(e).__name__}: {e}")
        if wit is not None:
            path = replay_mod.write(pid, g, wit, names)
            violations.append(f"VIOLATION property={pid} replay={path}")
            continue
        b = baseline.get(g)
        definite = any((not isinstance(x, dict)) and x.status == "sat" for x in bad) or any(isinstance(x, dict) for x in bad)
        changed = b is not None and any(hashes.get(fn) != h for fn, h in b.get("hashes", {}).items())
        if b is not None and b.get("discharged") and (definite or changed):
            detail = {"obligations": names, "solver": [(x.name, x.status, x.backend, x.detail) for x in bad if not isinstance(x, dict)],
                      "syntactic": [x for x in bad if isinstance(x, dict)],
                      "note": "obligation group discharged on the baseline tree and not discharged now; no failing input found by the witness search"}
            path = replay_mod.write(pid, g, {"kind": "obligation-only", **detail}, names)
            violations.append(f"VIOLATION property={pid} replay={path} no-failing-input-found")
        else:
            why = "not in baseline" if b is None else "source of the functions unchanged since baseline (solver instability?)"
            undecided_lines.append(f"UNDECIDED obligation-group={g} ({len(bad)} open: {', '.join(names[:3])}...) {why}")

    if update_baseline:
        allb = load_json(BASELINE, {})
        allb[pid] = {g: {"discharged": g not in failing, "n": len(v), "hashes": bundle.get("group_hashes", {}).get(g, hashes)}
                     for g, v in groups.items()}
        json.dump(allb, open(BASELINE, "w"), indent=1, sort_keys=True)

    wall = time.time() - t0
    level = bundle.get("level", "proof")
    if undecided_lines and level == "proof":
        level_run = "exploration" if bundle.get("bounded_counts") else "proof"
    else:
        level_run = level
    samples = [{"obligation": r.name, "status": r.status, "backend": r.backend, "seconds": round(r.seconds, 3)} for r in res_main[:6]]
    cov = {
        "obligations": n_obl, "discharged": n_dis,
        "checker_cmd": f"./check {pid} --tier {tier}",
        "trusted_base": bundle.get("trusted_base", []) + ["z3 5.1 (python API), z3 4.8.12 (CLI second opinion)", "pyvc symbolic executor (engine cross-check: see bounded)"],
        "samples": samples + bundle.get("samples", []),
        "functions_under_contract": bundle.get("functions", []),
        "extraction_drops": DROPPED,
        "per_obligation": [{"name": r.name, "status": r.status, "backend": r.backend, "s": round(r.seconds, 3)} for r in res_main],
        "syntactic": bundle.get("syntactic", []),
        "sanity_not_provable": [{"name": r.name, "status": r.status} for r in res_sanity],
        "undecided": undecided_lines,
        "bounded": bundle.get("bounded", []),
        "engine_crosscheck": bundle.get("engine_crosscheck", {}),
        "assumption_validation": [x for x in bundle.get("samples", []) if isinstance(x, dict) and ("opt_theory_validation" in x or "resolve_and_templated_keys_contract_validation" in x)],
        "solver_seconds": round(sum(r.seconds for r in res_main), 2),
        "explanation": bundle.get("explanation", ""),
    }
    bc = bundle.get("bounded_counts")
    if bc:
        cov.update(bc)
    ev = {"property_id": pid, "tier": tier, "seed": seed, "level": level_run, "coverage": cov,
          "assumptions": sorted(f"{k}: {v}" for k, v in T.ASSUMPTIONS.items()) + bundle.get("assumptions", []),
          "wall_s": round(wall, 2), "violations": len(violations)}
    evdir = os.environ.get("VERIF_EVIDENCE_DIR") or os.path.join(ROOT, "evidence")
    os.makedirs(evdir, exist_ok=True)
    json.dump(ev, open(os.path.join(evdir, f"{pid}.json"), "w"), indent=1, default=str)
    for l in known_lines + undecided_lines + violations:
        print(l)
    print(f"{pid}: obligations={n_obl} discharged={n_dis} undecided={len(undecided_lines)} known={len(known_lines)} "
          f"violations={len(violations)} wall={wall:.1f}s")
    return 1 if violations else 0


if __name__ == "__main__":
    sys.exit(main())
