"""Mechanical extraction of the verified text from /repo's *current working tree*.

Every run re-parses `$LABREA_SRC` (default /repo/labrea) with `ast.parse`; nothing is imported.
What is dropped is exactly what DESIGN.md section 2 lists: docstrings, annotations (kept only as
type preconditions), typing.overload stubs, `...` bodies, `# type:` comments, version shims.
"""
from __future__ import annotations

import ast
import hashlib
import os
from dataclasses import dataclass, field
from typing import Optional

SRC = os.environ.get("LABREA_SRC", "/repo/labrea")

DROPPED = [
    "docstrings", "parameter/return annotations (used only as type preconditions)",
    "@overload / @typing.overload stubs and `...` bodies", "cast(T, x) (identity)",
    "# type: ignore / # pragma comments", "sys.version_info import shims (3.12 branch taken)",
    "__repr__/_repr/__doc__/_build_doc* string building (except C19's repr clause)", "labrea/mypy plugin",
]


@dataclass
class ClassInfo:
    name: str
    module: "ModuleInfo"
    node: ast.ClassDef
    bases: list  # names (str) as written (Generic[...] subscripts stripped)
    annotations: dict  # field -> annotation ast
    methods: dict  # name -> FunctionDef (overload stubs dropped)
    assigns: dict  # class-level assignments name -> value ast
    properties: set = field(default_factory=set)
    staticmethods: set = field(default_factory=set)
    classmethods: set = field(default_factory=set)

    def __repr__(self):
        return f"<class {self.module.name}.{self.name}>"

    @property
    def qual(self):
        return f"{self.module.name}:{self.name}"


@dataclass
class ModuleInfo:
    name: str
    path: str
    source: str
    tree: ast.Module
    classes: dict = field(default_factory=dict)
    functions: dict = field(default_factory=dict)
    assigns: dict = field(default_factory=dict)  # name -> value ast (module level, last wins)
    imports: dict = field(default_factory=dict)  # local name -> (module qualified name, attr or None)
    decorated: list = field(default_factory=list)  # (FunctionDef, [decorator asts]) module-level

    def __repr__(self):
        return f"<module {self.name}>"


def _is_overload_stub(fn: ast.FunctionDef) -> bool:
    for d in fn.decorator_list:
        n = d
        if isinstance(n, ast.Attribute):
            n = n.attr
        elif isinstance(n, ast.Name):
            n = n.id
        else:
            continue
        if n == "overload":
            return True
    return False


def _base_name(b: ast.expr) -> Optional[str]:
    if isinstance(b, ast.Subscript):
        return _base_name(b.value)
    if isinstance(b, ast.Name):
        return b.id
    if isinstance(b, ast.Attribute):
        return b.attr
    return None


def _strip_version_shims(body):
    """`if sys.version_info < (...): A else: B` -> B (the 3.12 branch); TYPE_CHECKING blocks dropped."""
    out = []
    for st in body:
        if isinstance(st, ast.If):
            t = ast.unparse(st.test)
            if t.startswith("sys.version_info <"):
                out.extend(_strip_version_shims(st.orelse))
                continue
            if t == "TYPE_CHECKING":
                continue
        out.append(st)
    return out


class Repo:
    def __init__(self, src: str = None):
        self.src = src or SRC
        self.modules: dict[str, ModuleInfo] = {}
        for fn in sorted(os.listdir(self.src)):
            if fn.endswith(".py"):
                self._load(fn[:-3], os.path.join(self.src, fn))
        self._mro_cache = {}

    # ------------------------------------------------------------------ loading
    def _load(self, name, path):
        source = open(path).read()
        tree = ast.parse(source)
        m = ModuleInfo("labrea." + name, path, source, tree)
        for st in _strip_version_shims(tree.body):
            if isinstance(st, ast.ClassDef):
                m.classes[st.name] = self._class(m, st)
            elif isinstance(st, (ast.FunctionDef,)):
                if _is_overload_stub(st):
                    continue
                m.functions[st.name] = st
                if st.decorator_list:
                    m.decorated.append((st, st.decorator_list))
            elif isinstance(st, ast.Assign):
                for t in st.targets:
                    if isinstance(t, ast.Name):
                        m.assigns[t.id] = st.value
            elif isinstance(st, ast.AnnAssign) and isinstance(st.target, ast.Name) and st.value is not None:
                m.assigns[st.target.id] = st.value
            elif isinstance(st, ast.ImportFrom):
                mod = st.module or ""
                if st.level:
                    mod = "labrea" + ("." + mod if mod else "")
                for a in st.names:
                    m.imports[a.asname or a.name] = (mod, a.name)
            elif isinstance(st, ast.Import):
                for a in st.names:
                    m.imports[a.asname or a.name.split(".")[0]] = (a.name if a.asname else a.name.split(".")[0], None)
        self.modules[m.name] = m

    def _class(self, m, node: ast.ClassDef) -> ClassInfo:
        ci = ClassInfo(node.name, m, node, [b for b in (_base_name(x) for x in node.bases) if b not in (None, "Generic", "Protocol")],
                       {}, {}, {})
        for st in node.body:
            if isinstance(st, ast.AnnAssign) and isinstance(st.target, ast.Name):
                ci.annotations[st.target.id] = st.annotation
                if st.value is not None:
                    ci.assigns[st.target.id] = st.value
            elif isinstance(st, ast.Assign):
                for t in st.targets:
                    if isinstance(t, ast.Name):
                        ci.assigns[t.id] = st.value
            elif isinstance(st, ast.FunctionDef):
                if _is_overload_stub(st):
                    continue
                decos = [ast.unparse(d) for d in st.decorator_list]
                if "property" in decos:
                    ci.properties.add(st.name)
                if "staticmethod" in decos:
                    ci.staticmethods.add(st.name)
                if "classmethod" in decos:
                    ci.classmethods.add(st.name)
                ci.methods[st.name] = st
        return ci

    # ------------------------------------------------------------------ lookup
    def module(self, name) -> ModuleInfo:
        if not name.startswith("labrea"):
            name = "labrea." + name
        return self.modules[name]

    def find_class(self, name: str, frm: ModuleInfo = None) -> Optional[ClassInfo]:
        """resolve a class name as seen from module `frm` (following repo-internal imports)."""
        if frm is not None:
            if name in frm.classes:
                return frm.classes[name]
            if name in frm.imports:
                mod, attr = frm.imports[name]
                if mod in self.modules and attr:
                    return self.find_class(attr, self.modules[mod])
            if name in frm.assigns and isinstance(frm.assigns[name], ast.Name):
                return self.find_class(frm.assigns[name].id, frm)
            for mod, attr in frm.imports.values():
                if attr is None and mod in self.modules and name in self.modules[mod].classes:
                    return self.modules[mod].classes[name]
            return None
        for m in self.modules.values():
            if name in m.classes:
                return m.classes[name]
        return None

    def cls(self, qual: str) -> ClassInfo:
        mod, name = qual.split(":")
        return self.module(mod).classes[name]

    def mro(self, ci: ClassInfo) -> list:
        """C3 is not needed: labrea's hierarchies are linear enough for a left-to-right DFS without duplicates,
        except the Evaluatable diamond (Cacheable, Explainable, Validatable) which we order as Python does."""
        key = ci.qual
        if key in self._mro_cache:
            return self._mro_cache[key]
        seqs = []
        for b in ci.bases:
            bc = self.find_class(b, ci.module)
            if bc is not None:
                seqs.append(list(self.mro(bc)))
        seqs.append([c for c in (self.find_class(b, ci.module) for b in ci.bases) if c is not None])
        out = [ci]
        seqs = [s for s in seqs if s]
        while seqs:
            for s in seqs:
                cand = s[0]
                if not any(cand in t[1:] for t in seqs):
                    break
            else:
                raise ValueError("inconsistent MRO for " + key)
            out.append(cand)
            seqs = [[c for c in s if c is not cand] for s in seqs]
            seqs = [s for s in seqs if s]
        self._mro_cache[key] = out
        return out

    def base_names(self, ci: ClassInfo) -> set:
        """all ancestor names including external ones (ABC, Exception, type, ...)."""
        out = set()
        for c in self.mro(ci):
            out.add(c.name)
            out.update(c.bases)
        return out

    def is_subclass(self, ci: ClassInfo, name: str) -> bool:
        return name in self.base_names(ci)

    def find_method(self, ci: ClassInfo, name: str):
        for c in self.mro(ci):
            if name in c.methods:
                return c, c.methods[name]
        return None, None

    def all_classes(self):
        for m in self.modules.values():
            yield from m.classes.values()

    def evaluatable_classes(self):
        return [c for c in self.all_classes() if self.is_subclass(c, "Evaluatable") and c.name != "Evaluatable"]

    # ------------------------------------------------------------------ hashes
    def segment(self, mod: ModuleInfo, node: ast.AST) -> str:
        return ast.get_source_segment(mod.source, node) or ""

    def sha(self, mod: ModuleInfo, node: ast.AST) -> str:
        return hashlib.sha256(self.segment(mod, node).encode()).hexdigest()[:16]
