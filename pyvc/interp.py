"""Exec: state, forking, coercions, object model, calls (part 2 of the symbolic executor)."""
from __future__ import annotations

import ast

import z3

from . import theory as T
from .values import *  # noqa
from .symex import PyRaise, ReturnSig, BreakSig, ContinueSig, Env, litkey
from .interp_expr import ExprMixin
from .interp_stmt import StmtMixin
from .interp_loop import LoopMixin
from .models import ModelMixin

IFACE = ("evaluate", "validate", "keys", "explain")
REQ_OF = {"evaluate": "EvaluateRequest", "validate": "ValidateRequest", "keys": "KeysRequest", "explain": "ExplainRequest"}
LABREA_IMPL = {"__labrea_evaluate__": "evaluate", "__labrea_validate__": "validate", "__labrea_keys__": "keys", "__labrea_explain__": "explain"}


class SuperProxy:
    def __init__(self, obj, after_cls):
        self.obj, self.after_cls = obj, after_cls


class ModularMethod:
    def __init__(self, recv, name):
        self.recv, self.name = recv, name


class Exec(ExprMixin, StmtMixin, LoopMixin, ModelMixin):
    def __init__(self, repo, oracle, tag, config):
        self.repo = repo
        self.oracle = oracle
        self.tag = tag
        self.config = config
        self.pc = []
        self.defs = []
        self.trace = []
        self.heap = dict(config.get("heap", {}))
        self.n = 0
        self.depth = 0
        self.stack = []
        self.primordial = None     # first exception raised on this path (for C12's origin obligation)
        self.tags = []
        self.modcache = {}
        self.cur_exc = []
        self.narrow = {}
        self.flag_terms = set()
        self.known_evs = [z3.Const("self", T.Ev)]
        self.pubstack = []
        self.abstract_objs = []
        self._generic = []

    # ------------------------------------------------------------------ basics
    def fresh_fn(self, kind, *sig):
        self.n += 1
        return z3.Function(f"{self.tag}!{kind}{self.n}", *sig)

    def assume(self, cond):
        self.pc.append(cond)

    def define(self, fact):
        self.defs.append(fact)

    def fork(self, cond) -> bool:
        if isinstance(cond, bool):
            return cond
        c = z3.simplify(cond)
        if z3.is_true(c):
            return True
        if z3.is_false(c):
            return False
        # cheap pruning: a branch whose condition contradicts the path condition outright (no axioms needed) is not explored
        if self._infeasible(cond):
            self.pc.append(z3.Not(cond))
            return False
        if self._infeasible(z3.Not(cond)):
            self.pc.append(cond)
            return True
        ch = self.oracle.choose(2)
        if ch == 0:
            self.pc.append(cond)
            return True
        self.pc.append(z3.Not(cond))
        return False

    def _infeasible(self, cond):
        s = z3.Solver()
        s.set("timeout", 60)
        for c in self.pc:
            s.add(c)
        for c in self.defs:
            if not z3.is_quantifier(c):
                s.add(c)
        s.add(cond)
        return s.check() == z3.unsat

    def check_mut(self, obj):
        """a collection created outside a summarised loop must not be mutated inside it (the summary would lose the update)"""
        if self._generic and getattr(obj, "gen", 0) < len(self._generic):
            raise Unsupported("mutation of an outer collection inside a loop over a symbolic sequence")

    def choose(self, n):
        return self.oracle.choose(n) if n > 1 else 0

    def event(self, *ev):
        self.trace.append(ev)

    # ------------------------------------------------------------------ coercions
    def as_bool_term(self, v):
        """python truthiness as a z3 Bool (no forking)"""
        if isinstance(v, bool):
            return z3.BoolVal(v)
        if v is None:
            return z3.BoolVal(False)
        if isinstance(v, (int, str)):
            return z3.BoolVal(bool(v))
        if isinstance(v, Sym):
            if v.kind == "bool":
                return v.term
            if v.kind == "val":
                return T.truthy(v.term)
            if v.kind == "int":
                return v.term != 0
            if v.kind in ("ev", "exc"):
                return z3.BoolVal(True)
            if v.kind == "key":
                return T.truthy(T.val_of_key(v.term))
            if v.kind == "opt":
                k = self.bound("k", T.Key)
                return z3.Exists([k], T.haskey_top(v.term, k))
        if isinstance(v, (Obj, PyFunc, BoundMethod, Builtin, ClassRef, Partial, MissingT, ModularMethod, ExcSym)):
            return z3.BoolVal(True)
        if isinstance(v, (PyTuple, PyList)):
            return z3.BoolVal(len(v.items) > 0)
        if isinstance(v, PyDict):
            return z3.BoolVal(len(v.items) > 0)
        if isinstance(v, KSetV):
            k = self.bound("k", T.Key)
            return z3.Exists([k], v.mem(k))
        if isinstance(v, (SeqV, MapV)):
            return v.n > 0
        if isinstance(v, HeapListRef):
            return self.heap[v.hm.name][1][v.key] > 0
        if isinstance(v, ArrDict):
            t = self.bound("t", T.Val)
            return z3.Exists([t], v.present[t])
        raise Unsupported(f"truthiness of {v!r}")

    def truth(self, v) -> bool:
        return self.fork(self.as_bool_term(v))

    def as_val(self, v):
        if isinstance(v, Sym):
            if v.kind == "val":
                return v.term
            if v.kind == "key":
                return T.val_of_key(v.term)
            if v.kind == "ev":
                return T.val_of_ev(v.term)
            if v.kind == "opt":
                return T.val_of_opt(v.term)
            if v.kind == "bool":
                return z3.If(v.term, T.TRUE, T.FALSE)
            if v.kind == "int":
                return T.val_of_int(v.term)
        if v is None:
            return T.NONE
        if v is True:
            return T.TRUE
        if v is False:
            return T.FALSE
        if isinstance(v, MissingT):
            return T.MISSING
        if isinstance(v, str):
            return T.val_of_key(litkey(v))
        if isinstance(v, int):
            return T.val_of_int(z3.IntVal(v))
        if isinstance(v, float):
            return z3.Const(f"float!{v}", T.Val)
        if isinstance(v, Obj) and not v.is_exc:
            return T.val_of_ev(v.term)
        if isinstance(v, (PyFunc, Builtin, ClassRef)):
            nm = v.name if not isinstance(v, PyFunc) else f"{v.module.name}.{v.name}@{getattr(v.node, 'lineno', 0)}"
            if isinstance(v, PyFunc) and v.env is not None and v.term is None:
                v.term = self.closure_term(v)
            if isinstance(v, PyFunc) and v.term is not None:
                return v.term
            t = z3.Const("fn!" + nm, T.Val)
            return t
        if isinstance(v, BoundMethod):
            f = self.as_val(v.func)
            return T.partial_of(f, T.pack(T.seq1(self.as_val(v.self_val)), T.NOKW))
        if isinstance(v, Partial):
            return T.partial_of(self.as_val(v.func), self.pack_args(v.args, v.kwargs))
        if isinstance(v, (PyTuple, PyList)):
            return self.seq_val([self.as_val(x) for x in v.items])
        if isinstance(v, PyDict):
            ks = [self.as_val(k) for k in v.items.keys()]
            vs = [self.as_val(x) for x in v.items.values()]
            return T.mkmap(z3.IntVal(len(ks)), self.arr_of(ks), self.arr_of(vs))
        if isinstance(v, KSetV):
            return T.val_of_kset(self.kset_term(v))
        if isinstance(v, SeqV):
            return T.mkseq(v.n if z3.is_expr(v.n) else z3.IntVal(v.n), self.arr_of_seq(v))
        if isinstance(v, MapV):
            return T.mkmap(v.n, self.arr_of_fn(v.n, v.key), self.arr_of_fn(v.n, v.val))
        if isinstance(v, ExcSym):
            return z3.Const("excval!" + str(v.term), T.Val)
        if type(v).__name__ == "FingerprintV":
            return T.fpF(v.opt, self.kset_term(v.ks)) if getattr(v, "opt", None) is not None else self.fresh("fp", T.Val)
        if type(v).__name__ == "TypeOf":
            return z3.Function("typeof", T.Val, T.Val)(self.as_val(v.v))
        if isinstance(v, Delayed):
            return self.as_val(self.force(v))
        raise Unsupported(f"as_val of {v!r}")

    def closure_term(self, f):
        """a closure is a fresh function value; its meaning is given by inlining at application sites."""
        return self.fresh("clo", T.Val)

    def seq_val(self, terms):
        if len(terms) == 0:
            return T.NOARGS
        return T.mkseq(z3.IntVal(len(terms)), self.arr_of(terms))

    def arr_of(self, terms):
        a = z3.K(T.I, T.DFLT)
        for i, t in enumerate(terms):
            a = z3.Store(a, i, t)
        return a

    def arr_of_fn(self, n, f):
        i = self.bound("i", T.I)
        a = self.fresh("arr", z3.ArraySort(T.I, T.Val))
        body = self.as_val(f(i))
        self.define(z3.ForAll([i], a[i] == z3.If(z3.And(i >= 0, i < n), body, T.DFLT), patterns=[a[i]]))
        return a

    def arr_of_seq(self, s):
        return self.arr_of_fn(s.n if z3.is_expr(s.n) else z3.IntVal(s.n), s.elem)

    def pack_args(self, args, kwargs):
        if any(isinstance(a, tuple) and a and a[0] == "*" for a in args):
            # single starred symbolic sequence
            if len(args) == 1:
                pos = self.as_val(args[0][1])
            else:
                raise Unsupported("mixed starred args in uninterpreted call")
        else:
            pos = self.seq_val([self.as_val(a) for a in args])
        if "**" in kwargs:
            if len(kwargs) != 1:
                raise Unsupported("mixed ** kwargs in uninterpreted call")
            kw = self.as_val(kwargs["**"])
        elif kwargs:
            kw = self.as_val(PyDict(kwargs))
        else:
            kw = T.NOKW
        return T.pack(pos, kw)

    def kset_term(self, ks: KSetV):
        if len(ks.parts) == 1 and ks.parts[0][0] == "term":
            return ks.parts[0][1]
        if not ks.parts:
            return z3.EmptySet(T.Key)
        r = self.fresh("S", T.KSet)
        q = self.bound("q", T.Key)
        self.define(z3.ForAll([q], z3.IsMember(q, r) == ks.mem(q), patterns=[z3.IsMember(q, r)]))
        self._subset_facts(ks.parts, r, [], z3.BoolVal(True))
        return r

    def _subset_facts(self, parts, r, bvs, cond):
        """every part of a union is a subset of the union (ground / index-quantified facts for E-matching)"""
        for p in parts:
            if p[0] == "term":
                f = z3.Implies(cond, T.subsetP(p[1], r))
                self.define(z3.ForAll(bvs, f, patterns=[p[1]]) if bvs else f)
            elif p[0] == "one":
                f = z3.Implies(cond, z3.IsMember(p[1], r))
                self.define(z3.ForAll(bvs, f) if bvs else f)
            elif p[0] == "big":
                self._subset_facts(p[3], r, bvs + list(p[1]), z3.And(cond, p[2]))

    def as_key(self, v):
        if isinstance(v, str):
            return litkey(v)
        if isinstance(v, Sym):
            if v.kind == "key":
                return v.term
            if v.kind == "val":
                return T.key_of_val(v.term)
        raise Unsupported(f"as_key of {v!r}")

    def _as_opt_core(self, v):
        if isinstance(v, Sym) and v.kind == "opt":
            return v.term
        if isinstance(v, Sym) and v.kind == "val":
            return T.opt_of_val(v.term)
        if isinstance(v, PyDict) and not v.items:
            return T.EMPTY
        if isinstance(v, PyDict):
            return self.opt_of_pydict(v)
        if isinstance(v, MapV):
            return self.opt_of_mapv(v)
        raise Unsupported(f"as_opt of {v!r}")

    def opt_of_pydict(self, d):
        o = self.fresh("od", T.Opt)
        ks = []
        for k, x in d.items.items():
            kk = self.as_key(k)
            ks.append(kk)
            self.define(z3.And(T.has(o, kk), T.get(o, kk) == self.as_val(x)))
        q = self.bound("q", T.Key)
        self.define(z3.ForAll([q], z3.Implies(z3.And(T.has(o, q), T.top(q)), z3.Or(*[q == k for k in ks])), patterns=[T.has(o, q)]))
        return o

    def opt_of_mapv(self, m):
        """a dict literal of symbolic size used as an options dictionary (Template parameters):
        its top-level keys are exactly key(i), i<n, holding val(i)."""
        o = self.fresh("om", T.Opt)
        i = self.bound("i", T.I)
        q = self.bound("q", T.Key)
        ki = self.as_key(m.key(i))
        try:
            self.define(z3.ForAll([i], z3.Implies(z3.And(i >= 0, i < m.n), z3.And(T.has(o, ki), T.get(o, ki) == self.as_val(m.val(i)))),
                                  patterns=[T.has(o, ki)]))
        except z3.Z3Exception:      # the key term is not a valid trigger (contains a conditional): let the solver choose
            self.define(z3.ForAll([i], z3.Implies(z3.And(i >= 0, i < m.n), z3.And(T.has(o, ki), T.get(o, ki) == self.as_val(m.val(i))))))
        self.define(z3.ForAll([q], z3.Implies(z3.And(T.has(o, q), T.top(q)), z3.Exists([i], z3.And(i >= 0, i < m.n, q == ki))),
                              patterns=[T.has(o, q)]))
        # shape recognised as a Template parameter dictionary: every key is f":{name}:" and every value an escaped string
        vi = self.as_val(m.val(i))
        if z3.is_app(ki) and ki.decl().name() == "pkey" and z3.is_app(vi) and vi.decl().name() == "str_replace" and vi.eq(T.literal(vi.arg(0).arg(0))):
            self.define(T.pdict(o))
        return o

    def as_ev(self, v):
        if isinstance(v, Sym) and v.kind == "ev":
            return v.term
        if isinstance(v, Sym) and v.kind == "val":
            return T.ev_of(v.term)
        if isinstance(v, Obj) and not v.is_exc:
            return v.term
        raise Unsupported(f"as_ev of {v!r}")

    def as_int(self, v):
        if isinstance(v, bool):
            raise Unsupported("bool as int")
        if isinstance(v, int):
            return z3.IntVal(v)
        if isinstance(v, Sym) and v.kind == "int":
            return v.term
        raise Unsupported(f"as_int of {v!r}")

    # ------------------------------------------------------------------ exceptions
    def exc_term(self, e):
        return e.term

    def make_builtin_exc(self, name, args, cause=None):
        t = self.fresh("x", T.Exc)
        o = Obj(None, {"args": PyTuple(args)}, t, is_exc=True, builtin_cls=name)
        o.dep = name in ("KeyError", "TypeError", "IndexError")
        self._exc_facts(o, T.exc_ancestors(name) if name in T.EXC_CLASSES else ["Exception", "BaseException"], exact=name in T.EXC_CLASSES)
        if name == "KeyError" and args:
            try:
                self.define(T.exc_key(t) == self.as_key(args[0]))
            except Unsupported:
                pass
        return o

    def _exc_facts(self, o, ancestors, exact=True):
        t = o.term
        for n in T.EXC_CLASSES:
            if n in ancestors:
                self.define(T.is_cls[n](t))
            elif exact:
                self.define(z3.Not(T.is_cls[n](t)))

    def exc_ancestors_of(self, e):
        if isinstance(e, Obj):
            if e.cls is None:
                return T.exc_ancestors(e.builtin_cls) if e.builtin_cls in T.EXC_CLASSES else [e.builtin_cls, "Exception", "BaseException"]
            names = []
            for c in self.repo.mro(e.cls):
                names.append(c.name)
                for b in c.bases:
                    if b in T.EXC_CLASSES and b not in names:
                        names.extend(x for x in T.exc_ancestors(b) if x not in names)
            return names
        raise AssertionError

    def exc_matches(self, e, target: str) -> bool:
        if isinstance(e, Obj):
            return target in self.exc_ancestors_of(e)
        if isinstance(e, ExcSym):
            if e.bound is not None and target in T.exc_ancestors(e.bound):
                return True
            if target not in T.is_cls:
                raise Unsupported(f"except {target} on symbolic exception")
            return self.fork(T.is_cls[target](e.term))
        raise Unsupported(f"exception value {e!r}")

    def do_raise(self, e, cause=None, explicit_cause=False):
        if isinstance(e, ClassRef):
            e = self.call(e, [], {})
        if not (isinstance(e, ExcSym) or (isinstance(e, Obj) and e.is_exc)):
            if e is None or isinstance(e, Sym):
                e = self.make_builtin_exc("TypeError", [])
            else:
                raise Unsupported(f"raise of {e!r}")
        if isinstance(e, Obj) and e.is_exc and cause is not None and isinstance(cause, ExcSym) and cause.user \
                and "KeyNotFoundError" in self.exc_ancestors_of(e):
            self.tags.append(("user-exception-as-missing-option", str(cause.term)[:80]))
        if isinstance(e, Obj) and not getattr(e, "cause_set", False):
            e.cause_set = True
            if cause is None:
                self.define(z3.Not(T.has_cause(e.term)))
                self.define(T.origin(e.term) == e.term)
                self.define(T.missing(e.term) == ("KeyNotFoundError" in self.exc_ancestors_of(e)))
                self.define(T.mkey(e.term) == T.exc_key(e.term))
            else:
                self.define(T.has_cause(e.term))
                self.define(T.exc_cause(e.term) == cause.term)
                self.define(T.origin(e.term) == T.origin(cause.term))
                if "KeyNotFoundError" in self.exc_ancestors_of(e):
                    # a missing-option error is a missing-option failure whatever it was raised from (e.g. a dependency's KeyError);
                    # the key reported is that of the innermost missing-option error of the chain
                    self.define(T.missing(e.term))
                    self.define(T.mkey(e.term) == z3.If(T.missing(cause.term), T.mkey(cause.term), T.exc_key(e.term)))
                else:
                    self.define(T.missing(e.term) == T.missing(cause.term))
                    self.define(T.mkey(e.term) == T.mkey(cause.term))
        elif explicit_cause and cause is not None and isinstance(e, ExcSym):
            raise Unsupported("raise <symbolic> from")
        # C12 bookkeeping: which exception is the "original" one of the failure now in flight
        last = getattr(self, "_last_raised", None)
        handled = self.cur_exc[-1] if self.cur_exc else None
        if e is last or (cause is not None and cause is last) or (cause is not None and cause is handled):
            pass                                   # re-raise / explicit chaining keeps the original
        elif handled is not None and not getattr(handled, "dep", False) and not (isinstance(handled, ExcSym) and handled.bound is None):
            pass                                   # replaced while handling a labrea/child/user exception: chain must survive
        else:
            self.primordial = e
        if self.primordial is None:
            self.primordial = e
        self._last_raised = e
        raise PyRaise(e)

    # ------------------------------------------------------------------ object model
    def new_obj(self, ci, args, kwargs):
        is_exc = self.repo.is_subclass(ci, "Exception")
        if is_exc:
            t = self.fresh("x", T.Exc)
        else:
            t = self.fresh("obj_" + ci.name, T.Ev)
        o = Obj(ci, {}, t, is_exc=is_exc)
        if not is_exc:
            # a freshly allocated object is distinct from every object that existed before
            for u in self.known_evs:
                self.define(t != u)
            self.known_evs.append(t)
        if is_exc:
            o.fields["args"] = PyTuple([a for a in args if not isinstance(a, tuple)])
            self._exc_facts(o, self.exc_ancestors_of(o))
        owner, init = self.repo.find_method(ci, "__init__")
        if init is not None:
            self.call_pyfunc(PyFunc(init, owner.module, owner=owner), [o] + list(args), kwargs)
        if is_exc:
            src = o.fields.get("source")
            if src is not None:
                try:
                    self.define(T.exc_src(t) == self.as_ev(src))
                except Unsupported:
                    pass
            k = o.fields.get("key")
            if k is not None:
                try:
                    self.define(T.exc_key(t) == self.as_key(k))
                except Unsupported:
                    pass
        return o

    def sym_self(self, ci, name="self"):
        """the receiver of the method under verification: fields are created lazily from the class annotations"""
        return Obj(ci, {}, z3.Const(name, T.Ev))

    def class_of(self, v):
        if isinstance(v, Obj):
            return v.cls
        if isinstance(v, Sym) and v.kind == "ev":
            return v.cls or self.repo.find_class("Evaluatable")
        return None

    def field_from_annotation(self, recv, ci, name):
        """symbolic content of field `name` of receiver (Obj self or abstract Sym ev of known class)"""
        ann = None
        for c in self.repo.mro(ci):
            if name in c.annotations:
                ann, owner = c.annotations[name], c
                break
        if ann is None:
            raise Unsupported(f"no annotation for field {ci.name}.{name}")
        base = f"{owner.name}.{name}"
        rt = recv.term
        return self.sym_of_annotation(ann, owner.module, base, rt)

    def sym_of_annotation(self, ann, module, base, rt):
        """build a symbolic value of the annotated type as a function of the receiver identity `rt`"""
        def uf(suffix, *sig):
            return z3.Function(f"fld!{base}{suffix}", T.Ev, *sig)
        kind, info = self.classify_annotation(ann, module)
        if kind == "ev":
            return Sym("ev", uf("", T.Ev)(rt), info)
        if kind == "maybe_ev":
            t = uf("", T.Val)(rt)
            self.define(z3.Or(t == T.MISSING, T.isev(t)))
            if info is not None:
                self.narrow[str(t)] = info
            return Sym("val", t, info)
        if kind == "optional_ev":
            t = uf("", T.Val)(rt)
            self.define(z3.Or(t == T.NONE, T.isev(t)))
            self.define(T.truthy(t) == (t != T.NONE))
            self.narrow[str(t)] = info
            return Sym("val", t, info)
        if kind == "opt":
            return Sym("opt", uf("", T.Opt)(rt))
        if kind == "bool":
            return Sym("bool", uf("", T.B)(rt))
        if kind == "int":
            return Sym("int", uf("", T.I)(rt))
        if kind == "str":
            t = uf("", T.Val)(rt)
            self.define(T.isstr(t))
            return Sym("val", t)
        if kind == "callable":
            t = uf("", T.Val)(rt)
            self.define(T.iscallable(t))
            self.define(z3.Not(T.isev(t)))
            return Sym("val", t)
        if kind == "val":
            return Sym("val", uf("", T.Val)(rt))
        if kind == "heapdict":
            name = f"hd!{base}"
            if name not in self.heap:
                self.heap[name] = (z3.Const(name + "#p", z3.ArraySort(T.Val, T.B)), z3.Const(name + "#v", z3.ArraySort(T.Val, T.Val)))
            return HeapMap(name, "val", "val")
        if kind == "arrdict":
            return ArrDict(uf("#p", z3.ArraySort(T.Val, T.B))(rt), uf("#v", z3.ArraySort(T.Val, T.Val))(rt))
        if kind == "lock":
            return LockV(base)
        if kind == "seq_ev":
            n = uf("#n", T.I)(rt)
            self.define(n >= 0)
            at = uf("#at", T.I, T.Ev)
            return SeqV(n, lambda i: Sym("ev", at(rt, i), info))
        if kind == "seq_pair_ev":
            n = uf("#n", T.I)(rt)
            self.define(n >= 0)
            a0 = uf("#at0", T.I, T.Ev)
            a1 = uf("#at1", T.I, T.Ev)
            return SeqV(n, lambda i: PyTuple([Sym("ev", a0(rt, i)), Sym("ev", a1(rt, i))]))
        if kind == "map_ev":
            n = uf("#n", T.I)(rt)
            self.define(n >= 0)
            kf = uf("#key", T.I, T.Val)
            vf = uf("#val", T.I, T.Ev)
            hasf = uf("#has", T.Val, T.B)
            atf = uf("#at", T.Val, T.Ev)
            i = z3.Const("i!m", T.I)
            j = z3.Const("j!m", T.I)
            v = z3.Const("v!m", T.Val)
            # ordered view and lookup view describe the same mapping; keys are distinct
            self.define(z3.ForAll([i], z3.Implies(z3.And(i >= 0, i < n), z3.And(hasf(rt, kf(rt, i)), atf(rt, kf(rt, i)) == vf(rt, i))),
                                  patterns=[kf(rt, i)]))
            self.define(z3.ForAll([v], z3.Implies(hasf(rt, v), z3.Exists([i], z3.And(i >= 0, i < n, kf(rt, i) == v))), patterns=[hasf(rt, v)]))
            self.define(z3.ForAll([i, j], z3.Implies(z3.And(i >= 0, i < n, j >= 0, j < n, kf(rt, i) == kf(rt, j)), i == j),
                                  patterns=[z3.MultiPattern(kf(rt, i), kf(rt, j))]))
            if info == "strkeys":
                self.define(z3.ForAll([i], T.isstr(kf(rt, i)), patterns=[kf(rt, i)]))
            return MapV(n, lambda i: Sym("val", kf(rt, i)), lambda i: Sym("ev", vf(rt, i)),
                        has=lambda t: hasf(rt, t), at=lambda t: Sym("ev", atf(rt, t)))
        raise Unsupported(f"annotation {ast.unparse(ann)} for {base}")

    def classify_annotation(self, ann, module):
        s = ast.unparse(ann).replace('"', "").replace("'", "")
        repo = self.repo

        def cls_of(name):
            ci = repo.find_class(name, module) or repo.find_class(name)
            return ci

        head = s.split("[")[0]
        if head == "Optional":
            inner = s[len("Optional["):-1]
            h2 = inner.split("[")[0]
            if h2 in ("Options",):
                return "opt", None
            if h2 == "str":
                return "val", None
            ci = cls_of(h2)
            if ci is not None:
                return "optional_ev", ci
            return "val", None
        if head == "MaybeMissing":
            inner = s[len("MaybeMissing["):-1]
            h2 = inner.split("[")[0]
            ci = cls_of(h2)
            if h2 in ("Evaluatable", "Domain") or (ci is not None and repo.is_subclass(ci, "Evaluatable")):
                return "maybe_ev", ci
            return "val", None
        if head in ("Options",):
            return "opt", None
        if head == "bool":
            return "bool", None
        if head == "int":
            return "int", None
        if head == "str":
            return "str", None
        if head in ("Callable",):
            return "callable", None
        if head in ("List", "Tuple", "Iterable", "Sequence"):
            inner = s[len(head) + 1:-1]
            h2 = inner.split("[")[0].split(",")[0].strip()
            if h2 == "Tuple":
                return "seq_pair_ev", None
            ci = cls_of(h2)
            if h2 in ("Evaluatable", "Effect") or ci is not None:
                return "seq_ev", ci
            return "val", None
        if head in ("Dict", "Mapping"):
            inner = s[len(head) + 1:-1]
            parts = inner.split(",", 1)
            if len(parts) == 2:
                h2 = parts[1].strip().split("[")[0]
                ci = cls_of(h2)
                if h2 == "Evaluatable" or (ci is not None and repo.is_subclass(ci, "Evaluatable")):
                    return "map_ev", ("strkeys" if parts[0].strip() == "str" else None)
                if h2 in ("Handler",):
                    return "arrdict", None
                if parts[0].strip() == "bytes":
                    return "heapdict", None
            return "val", None
        if head.endswith("Lock"):
            return "lock", None
        ci = cls_of(head)
        if ci is not None:
            return "ev", ci
        return "val", None

    # ------------------------------------------------------------------ calls
    def _call_core(self, f, args, kwargs):
        """args: list of values, or ('*', seqvalue) entries; kwargs: dict name->value, key '**' for a symbolic mapping"""
        if isinstance(f, BoundMethod):
            return self.call(f.func, [f.self_val] + list(args), kwargs)
        if isinstance(f, PyFunc):
            return self.call_pyfunc(f, args, kwargs)
        if isinstance(f, ModularMethod):
            return self.call_modular(f, args, kwargs)
        if isinstance(f, Builtin):
            return self.call_builtin(f.name, args, kwargs)
        if isinstance(f, ClassRef):
            if f.ci is not None:
                if self.repo.is_subclass(f.ci, "type") :
                    raise Unsupported(f"metaclass instantiation {f.ci.name}")
                return self.new_obj(f.ci, args, kwargs)
            return self.call_builtin("class:" + f.builtin, args, kwargs)
        if isinstance(f, Partial):
            kw = dict(f.kwargs)
            kw.update(kwargs)
            return self.call(f.func, list(f.args) + list(args), kw)
        if isinstance(f, Sym) and f.kind == "val":
            return self.call_uninterpreted(f.term, args, kwargs)
        if isinstance(f, (Sym, Obj)):
            ci = self.class_of(f)
            if ci is not None:
                owner, m = self.repo.find_method(ci, "__call__")
                if m is not None:
                    return self.call_pyfunc(PyFunc(m, owner.module, owner=owner), [f] + list(args), kwargs)
        raise Unsupported(f"call of {f!r}")

    def call_uninterpreted(self, fterm, args, kwargs):
        p = self.pack_args(args, kwargs)
        self.event("apply", fterm, p)
        if self.fork(T.call_ok(fterm, p)):
            return Sym("val", T.call_val(fterm, p))
        self.tags.append(("user-raise", str(fterm)))
        self.do_raise(ExcSym(T.call_exc(fterm, p), "Exception", user=True))

    def call_modular(self, mm, args, kwargs):
        recv, name = mm.recv, mm.name
        c = self.as_ev(recv)
        if name == "transform":
            value = args[0]
            o = args[1] if len(args) > 1 else kwargs.get("options")
            ot = T.EMPTY if o is None else self.as_opt(o)
            vt = self.as_val(value)
            self.event("call", "transform", c, ot, vt)
            if self.fork(T.TFok(c, vt, ot)):
                return None
            self.do_raise(ExcSym(T.TFexc(c, vt, ot), "Exception"))
        o = args[0] if args else kwargs.get("options")
        if o is None and name == "explain":
            ot = T.EMPTY
        else:
            ot = self.as_opt(o)
        ok, val, exc = T.SPEC[name]
        self.event("call", name, c, ot)
        if name == "evaluate" and str(c) in self.flag_terms:
            self.assume(ok(c, ot))     # A-flags: reading a LABREA.* switch never fails
            return Sym("val", val(c, ot))
        if self.fork(ok(c, ot)):
            if name == "evaluate":
                return Sym("val", val(c, ot))
            if name == "validate":
                return None
            return KSetV([("term", val(c, ot))])
        if all(not c.eq(u) for u in self.known_evs):
            self.known_evs.append(c)
        bound = "EvaluationError"
        iseffect = isinstance(recv, Sym) and recv.cls is not None and not self.repo.is_subclass(recv.cls, "Evaluatable")
        if iseffect:
            bound = "Exception"
        self.tags.append(("child-contract", name, str(c)))
        if name == "evaluate":
            self.assume(T.exc_src(exc(c, ot)) == c)     # the child's L6 (contract)
        self.do_raise(ExcSym(exc(c, ot), bound))

    def call_pyfunc(self, f: PyFunc, args, kwargs):
        node = f.node
        if self.depth > 40:
            raise Unsupported("call depth")
        if f.name.startswith("_build_doc") or f.name in ("__repr__", "_repr"):
            # documentation / repr string building is dropped by the extraction (DESIGN section 2): an opaque string
            t = self.fresh("docstr", T.Val)
            self.define(T.isstr(t))
            return Sym("val", t)
        qual = f.name if f.owner is None else f"{f.owner.name}.{f.name}"
        fc = self.config.get("fn_contracts", {}).get((f.module.name, qual)) if f.env is None else None
        if fc is not None and not (self.config.get("verify_fn") == (f.module.name, qual) and not any(g.node is node for g in self.stack)):
            # modular call of a function under contract: the caller is checked against the contract, not the body
            env = Env(f.module, None)
            self.bind_params(f, node.args, args, kwargs, env)
            self.tags.append(("fn-contract", f.name))
            return fc(self, env.vars)
        env = Env(f.module, f.env)
        self.bind_params(f, node.args, args, kwargs, env)
        self.depth += 1
        self.stack.append(f)
        try:
            if isinstance(node, ast.Lambda):
                return self.eval(node.body, env)
            if any(isinstance(n, (ast.Yield, ast.YieldFrom)) for n in ast.walk(node)):
                return self.run_generator(f, env)
            try:
                self.exec_block(node.body, env)
            except ReturnSig as r:
                return r.value
            return None
        finally:
            self.depth -= 1
            self.stack.pop()

    def bind_params(self, f, a: ast.arguments, args, kwargs, env):
        kwargs = dict(kwargs)
        pos = list(a.posonlyargs) + list(a.args)
        defaults = [None] * (len(pos) - len(a.defaults)) + list(a.defaults)
        args = list(args)
        star_rest = None
        flat = []
        for x in args:
            if isinstance(x, tuple) and x and x[0] == "*":
                sv = x[1]
                if isinstance(sv, (PyTuple, PyList)):
                    flat.extend(sv.items)
                else:
                    star_rest = sv
            else:
                flat.append(x)
        i = 0
        for p, d in zip(pos, defaults):
            if i < len(flat):
                env.vars[p.arg] = flat[i]
                i += 1
            elif p.arg in kwargs and p not in a.posonlyargs:
                env.vars[p.arg] = kwargs.pop(p.arg)
            elif d is not None:
                env.vars[p.arg] = self.eval(d, Env(f.module, f.env))
            else:
                raise Unsupported(f"missing argument {p.arg} calling {f.name}")
        rest = flat[i:]
        if a.vararg:
            if star_rest is not None:
                if rest:
                    raise Unsupported("mixed star args")
                env.vars[a.vararg.arg] = star_rest
            else:
                env.vars[a.vararg.arg] = PyTuple(rest)
        elif rest or star_rest is not None:
            raise Unsupported(f"too many positional arguments calling {f.name}")
        for p, d in zip(a.kwonlyargs, a.kw_defaults):
            if p.arg in kwargs:
                env.vars[p.arg] = kwargs.pop(p.arg)
            elif d is not None:
                env.vars[p.arg] = self.eval(d, Env(f.module, f.env))
            else:
                raise Unsupported(f"missing kw argument {p.arg}")
        if a.kwarg:
            if "**" in kwargs:
                if len(kwargs) != 1:
                    raise Unsupported("mixed ** kwargs")
                env.vars[a.kwarg.arg] = kwargs["**"]
            else:
                env.vars[a.kwarg.arg] = PyDict(kwargs)
        elif kwargs:
            raise Unsupported(f"unexpected kwargs {list(kwargs)} calling {f.name}")

    # public interface call on an inlined object: through the request + default handler (real code of types.py)
    def call_public(self, recv, name, args):
        """recv.<name>(*args) where recv is an Obj of a repo class: the wrapper installed by __init_subclass__
        issues <Name>Request(recv, options).run(); the default handler calls __labrea_<name>__ = the class's own body."""
        ci = recv.cls
        owner, m = self.repo.find_method(ci, name)
        if m is None:
            raise Unsupported(f"{ci.name} has no {name}")
        limit = self.config.get("reentry_limit", {}).get(ci.name, 1)
        ac = self.config.get("abstract_classes", ())
        if self.pubstack and (ac == "*" or ci.name in ac
                              or sum(1 for c, mm in self.pubstack if c == ci.name and mm == name) >= limit):
            return self.call(ModularMethod(self.abstract_temp(recv), name), args, {})
        self.pubstack.append((ci.name, name))
        try:
            return self._call_public(recv, name, args, ci)
        finally:
            self.pubstack.pop()

    def abstract_temp(self, obj):
        """a temporary of a verified class used through its class contract: identity = mk_<C>(fields)"""
        if getattr(obj, "abstract", None) is not None:
            return obj.abstract
        names = sorted(k for k in obj.fields if not k.startswith("__"))
        vals = []
        for k in names:
            fv = obj.fields[k]
            if isinstance(fv, Obj) and not fv.is_exc and fv.cls is not None:
                vals.append(T.val_of_ev(self.abstract_temp(fv).term))
            else:
                vals.append(self.as_val(fv))
        f = z3.Function("mk_" + obj.cls.name + "#" + ",".join(names), *([T.Val] * len(vals)), T.Ev)
        t = f(*vals)
        self.tags.append(("abstract-temp", obj.cls.name))
        self.abstract_objs.append((obj, t))
        hook = self.config.get("temp_contract")
        if hook is not None:
            hook(self, obj, t)
        obj.abstract = Sym("ev", t, obj.cls)
        return obj.abstract

    def _call_public(self, recv, name, args, ci):
        o = args[0] if args else None
        if name == "explain":
            if o is None:
                o = PyDict()
            elif isinstance(o, Sym) and o.kind == "opt":
                pass
        ot = self.as_opt(o)
        self.event("call", name, recv.term, ot)
        o = Sym("opt", ot)
        types = self.repo.module("types")
        reqcls = types.classes[REQ_OF[name]]
        req = self.new_obj(reqcls, [recv, o], {})
        return self.run_request(req)

    def run_request(self, req):
        """Request.run(): served by the handler registered by default for the request's type (C14/C18 decide routing);
        config['ctx'] may override handler sets symbolically (C16)."""
        rc = req.cls
        self.event("req", rc.name, req)
        h = self.default_handler(rc)
        if h is None:
            raise Unsupported(f"no default handler for {rc.name}")
        return self.call(h, [req], {})

    def default_handler(self, rc):
        ov = self.config.get("handlers", {})
        if rc.name in ov:
            return ov[rc.name](self, rc)
        for m in self.repo.modules.values():
            for fn, decos in m.decorated:
                for d in decos:
                    if isinstance(d, ast.Attribute) and d.attr == "handle" and isinstance(d.value, ast.Name):
                        c = self.repo.find_class(d.value.id, m)
                        if c is rc:
                            return PyFunc(fn, m)
        return None
