"""Expression evaluation (part 3 of the symbolic executor)."""
from __future__ import annotations

import ast

import z3

from . import theory as T
from .values import *  # noqa
from .models import TypeOf as TypeOfV

IFACE = ("evaluate", "validate", "keys", "explain")
LABREA_IMPL = {"__labrea_evaluate__": "evaluate", "__labrea_validate__": "validate", "__labrea_keys__": "keys", "__labrea_explain__": "explain"}
EXTERNAL_MODULES = ("functools", "itertools", "threading", "warnings", "logging", "json", "copy", "inspect", "typing", "re",
                    "operator", "sys", "types", "abc", "confectioner", "confectioner.templating", "enum", "typing_extensions")


class ExprMixin:
    # ------------------------------------------------------------------ names
    def lookup_name(self, name, env):
        if env.has(name):
            v = env.lookup(name)
            if isinstance(v, Poison):
                raise Unsupported(f"loop-carried variable {v.name} read inside a summarised loop")
            return v
        return self.module_name(env.module, name)

    def module_name(self, module, name):
        from .symex import Env
        key = (module.name, name)
        if key in self.modcache:
            return self.modcache[key]
        v = self._module_name(module, name)
        self.modcache[key] = v
        return v

    def _module_name(self, module, name):
        from .symex import Env
        hm = self.config.get("globals", {}).get((module.name, name))
        if hm is not None:
            return hm
        if module.name == "labrea._missing" and name == "MISSING":
            return MISSING      # the Enum member Missing.token: a unique sentinel compared by identity
        if name in module.classes:
            return ClassRef(module.classes[name])
        if name in module.functions:
            return PyFunc(module.functions[name], module)
        if name in module.assigns:
            node = module.assigns[name]
            if isinstance(node, ast.Call) and ast.unparse(node.func) in ("TypeVar", "ParamSpec"):
                return Builtin("typevar")
            return self.eval(node, Env(module))
        if name in module.imports:
            mod, attr = module.imports[name]
            if mod in self.repo.modules:
                if attr is None:
                    return ModRef(mod)
                return self.module_name(self.repo.modules[mod], attr)
            if mod == "labrea" and attr is not None and ("labrea." + attr) in self.repo.modules:
                return ModRef("labrea." + attr)
            if attr is None:
                return ModRef(mod)
            return self.external(mod, attr)
        return self.builtin_name(name)

    def external(self, mod, attr):
        if mod == "labrea._missing" and attr == "MISSING":
            return MISSING
        return Builtin(f"{mod}.{attr}")

    def builtin_name(self, name):
        if name in T.EXC_CLASSES or name in ("Exception", "BaseException", "StopIteration", "RuntimeWarning", "Warning", "UserWarning"):
            return ClassRef(builtin=name)
        if name in ("str", "int", "float", "bool", "list", "dict", "set", "tuple", "type", "object", "frozenset", "bytes"):
            return ClassRef(builtin=name)
        if name in ("isinstance", "callable", "hasattr", "getattr", "setattr", "len", "sorted", "zip", "map", "filter", "any", "all",
                    "repr", "id", "enumerate", "reversed", "super", "iter", "next", "print", "dir", "issubclass", "staticmethod",
                    "classmethod", "property", "NotImplemented", "min", "max", "sum", "range", "vars"):
            return Builtin(name)
        raise Unsupported(f"unknown name {name}")

    # ------------------------------------------------------------------ expressions
    def eval(self, node, env):
        m = getattr(self, "e_" + type(node).__name__, None)
        if m is None:
            raise Unsupported(f"expression {type(node).__name__}")
        return m(node, env)

    def e_Constant(self, node, env):
        if node.value is Ellipsis:
            return Builtin("Ellipsis")
        return node.value

    def e_Name(self, node, env):
        return self.lookup_name(node.id, env)

    def e_Tuple(self, node, env):
        try:
            return PyTuple(self.eval_seq(node.elts, env))
        except StarOnly as so:
            return so.v
        except StarThen as st:
            base, extra = st.v, st.extra
            n = base.n

            def elem(i, base=base, extra=extra, n=n):
                return self.merge_values([(i < n, base.elem(i))] + [(i == n + k, x) for k, x in enumerate(extra)])
            return SeqV(n + len(extra), elem, "tuple")
        except StarMix as sm:
            return self.seq_of_segments(sm.out, "tuple")

    def e_List(self, node, env):
        try:
            r = PyList(self.eval_seq(node.elts, env))
            r.gen = len(self._generic)
            return r
        except StarOnly as so:
            return so.v
        except StarThen as st:
            base, extra = st.v, st.extra
            n = base.n

            def elem(i, base=base, extra=extra, n=n):
                alts = [(i < n, base.elem(i))] + [(i == n + k, x) for k, x in enumerate(extra)]
                return self.merge_values(alts)
            return SeqV(n + len(extra), elem)
        except StarMix as sm:
            return self.seq_of_segments(sm.out)

    def eval_seq(self, elts, env):
        out = []
        for e in elts:
            if isinstance(e, ast.Starred):
                v = self.eval(e.value, env)
                if isinstance(v, Delayed):
                    v = self.force(v)
                if isinstance(v, (PyTuple, PyList)):
                    out.extend(v.items)
                else:
                    out.append(("*", v))
            else:
                out.append(self.eval(e, env))
        if any(isinstance(x, tuple) and x and x[0] == "*" for x in out):
            if len(out) == 1:
                raise StarOnly(out[0][1])
            # [*seq, a, b]: a symbolic sequence followed by concrete items
            if isinstance(out[0], tuple) and out[0][0] == "*" and isinstance(out[0][1], SeqV) and not any(isinstance(x, tuple) and x and x[0] == "*" for x in out[1:]):
                raise StarThen(out[0][1], out[1:])
            if all(not (isinstance(x, tuple) and x and x[0] == "*") or isinstance(x[1], SeqV) for x in out):
                raise StarMix(out)
            raise Unsupported("starred symbolic sequence inside display")
        return out

    def seq_of_segments(self, out, kind="list"):
        """[a, *s, b, *t, ...]: the concatenation, as a sequence of symbolic length (segment k starts at the sum of the lengths before it)"""
        segs = []          # (start term, length term, element function)
        start = z3.IntVal(0)
        for x in out:
            if isinstance(x, tuple) and x and x[0] == "*":
                sv = x[1]
                segs.append((start, sv.n, (lambda j, sv=sv: sv.elem(j))))
                start = z3.simplify(start + sv.n)
            else:
                segs.append((start, z3.IntVal(1), (lambda j, x=x: x)))
                start = z3.simplify(start + 1)

        def elem(i, segs=segs):
            return self.merge_values([(z3.And(i >= st, i < st + ln), f(i - st)) for st, ln, f in segs])
        return SeqV(start, elem, kind) if kind != "list" else SeqV(start, elem)

    def e_Set(self, node, env):
        items = [self.eval(e, env) for e in node.elts]
        return KSetV([("one", self.as_key(x)) for x in items])

    def e_Dict(self, node, env):
        cur = PyDict()
        cur.gen = len(self._generic)
        for k, v in zip(node.keys, node.values):
            if k is None:
                x = self.eval(v, env)
                if isinstance(x, PyDict) and isinstance(cur, PyDict):
                    cur.items.update(x.items)
                elif x is None:
                    raise Unsupported("** of None")
                elif isinstance(x, MapV) and isinstance(cur, PyDict) and not cur.items:
                    cur = x
                else:
                    cur = self.arrdict_update(self.to_arrdict(cur), self.to_arrdict(x))
            else:
                kk = self.eval(k, env)
                vv = self.eval(v, env)
                if isinstance(cur, MapV):
                    if cur.has is None:
                        raise Unsupported("update of a derived mapping")
                    kt = self.as_val(kk)
                    old = cur

                    def no_order(i):
                        raise Unsupported("iteration over an updated mapping")
                    cur = MapV(old.n + 1, no_order, no_order, has=lambda t, old=old, kt=kt: z3.Or(t == kt, old.has(t)),
                               at=lambda t, old=old, kt=kt, vv=vv: self.merge_values([(t == kt, vv), (z3.BoolVal(True), old.at(t))]))
                    cur.updated_from = (old, kt, vv)
                    continue
                if isinstance(cur, PyDict) and not isinstance(kk, (Sym, TypeOfV)):
                    cur.items[self.hashable(kk)] = vv
                else:
                    cur = self.to_arrdict(cur)
                    kt = self.as_val(kk)
                    cur = ArrDict(z3.Store(cur.present, kt, True), z3.Store(cur.vals, kt, self.as_val(vv)))
        return cur

    def to_arrdict(self, d):
        if isinstance(d, ArrDict):
            return d
        if isinstance(d, PyDict):
            p = z3.K(T.Val, z3.BoolVal(False))
            vs = z3.K(T.Val, T.DFLT)
            for k, v in d.items.items():
                kt = self.as_val(k)
                p = z3.Store(p, kt, True)
                vs = z3.Store(vs, kt, self.as_val(v))
            return ArrDict(p, vs)
        if isinstance(d, HeapMap):
            present, vals = self.heap[d.name]
            return ArrDict(present, vals)
        if isinstance(d, Sym) and d.kind == "val":
            return ArrDict(z3.Function("valmap#p", T.Val, z3.ArraySort(T.Val, T.B))(d.term),
                           z3.Function("valmap#v", T.Val, z3.ArraySort(T.Val, T.Val))(d.term))
        raise Unsupported(f"dict display with ** of {d!r}")

    def arrdict_update(self, a, b):
        t = z3.Const("t!ad", T.Val)
        return ArrDict(z3.Lambda([t], z3.Or(b.present[t], a.present[t])),
                       z3.Lambda([t], z3.If(b.present[t], b.vals[t], a.vals[t])))

    def hashable(self, k):
        if isinstance(k, (str, int, bool, type(None), MissingT, ClassRef)):
            return k
        if isinstance(k, PyTuple):
            return tuple(self.hashable(x) for x in k.items)
        raise Unsupported(f"dict key {k!r}")

    def e_JoinedStr(self, node, env):
        vals = node.values
        # f":{key}:"  -> pkey(key);  f"{a}.{b}" -> dot(a, b)
        if len(vals) == 3 and isinstance(vals[0], ast.Constant) and vals[0].value == ":" and isinstance(vals[2], ast.Constant) \
                and vals[2].value == ":" and isinstance(vals[1], ast.FormattedValue):
            k = self.eval(vals[1].value, env)
            return Sym("key", T.pkey(self.as_key(k)))
        if len(vals) == 3 and isinstance(vals[1], ast.Constant) and vals[1].value == "." and isinstance(vals[0], ast.FormattedValue) \
                and isinstance(vals[2], ast.FormattedValue):
            a = self.eval(vals[0].value, env)
            b = self.eval(vals[2].value, env)
            if isinstance(a, str) and isinstance(b, str):
                return a + "." + b
            return Sym("key", T.dot(self.as_key(a), self.as_key(b)))
        # the text itself is dropped (DESIGN section 2), but the embedded expressions are still evaluated: they can raise
        for part in vals:
            if isinstance(part, ast.FormattedValue):
                try:
                    self.eval(part.value, env)
                except Unsupported:
                    pass
        t = z3.Const(f"fstr!{env.module.name}:{node.lineno}:{node.col_offset}", T.Val)
        self.define(T.isstr(t))
        return Sym("val", t)

    def e_Lambda(self, node, env):
        return PyFunc(node, env.module, env, name=f"<lambda:{node.lineno}>")

    def e_IfExp(self, node, env):
        if self.truth(self.eval(node.test, env)):
            return self.eval(node.body, env)
        return self.eval(node.orelse, env)

    def e_BoolOp(self, node, env):
        if isinstance(node.op, ast.Or):
            for i, sub in enumerate(node.values):
                v = self.eval(sub, env)
                if i == len(node.values) - 1:
                    return v
                # `options or {}`: an options mapping that is falsy is the empty mapping
                if isinstance(v, Sym) and v.kind == "opt":
                    return v
                if isinstance(v, ArrDict):
                    return v
                if self.truth(v):
                    return v
        else:
            for i, sub in enumerate(node.values):
                v = self.eval(sub, env)
                if i == len(node.values) - 1:
                    return v
                if not self.truth(v):
                    return v

    def e_UnaryOp(self, node, env):
        v = self.eval(node.operand, env)
        if isinstance(node.op, ast.Not):
            if isinstance(v, Sym) and v.kind in ("bool", "val"):
                return Sym("bool", z3.Not(self.as_bool_term(v)))
            return not self.truth(v)
        if isinstance(node.op, ast.USub) and isinstance(v, int):
            return -v
        raise Unsupported("unary op")

    def e_Compare(self, node, env):
        left = self.eval(node.left, env)
        res = None
        for op, rn in zip(node.ops, node.comparators):
            right = self.eval(rn, env)
            r = self.compare(op, left, right)
            if len(node.ops) == 1:
                return r
            if not self.truth(r):
                return False
            left = right
        return True

    def compare(self, op, a, b):
        if isinstance(op, (ast.Is, ast.IsNot)):
            r = self.identical(a, b)
            if isinstance(op, ast.IsNot):
                r = z3.Not(r) if z3.is_expr(r) else (not r)
            return Sym("bool", r) if z3.is_expr(r) else r
        if isinstance(op, (ast.In, ast.NotIn)):
            r = self.contains(b, a)
            if isinstance(op, ast.NotIn):
                r = z3.Not(r) if z3.is_expr(r) else (not r)
            return Sym("bool", r) if z3.is_expr(r) else r
        if isinstance(op, (ast.Eq, ast.NotEq)):
            r = self.equal(a, b)
            if isinstance(op, ast.NotEq):
                r = z3.Not(r) if z3.is_expr(r) else (not r)
            return Sym("bool", r) if z3.is_expr(r) else r
        if isinstance(op, (ast.Lt, ast.LtE, ast.Gt, ast.GtE)):
            if isinstance(a, (int,)) and isinstance(b, int):
                return {ast.Lt: a < b, ast.LtE: a <= b, ast.Gt: a > b, ast.GtE: a >= b}[type(op)]
            x, y = self.as_int(a), self.as_int(b)
            return Sym("bool", {ast.Lt: x < y, ast.LtE: x <= y, ast.Gt: x > y, ast.GtE: x >= y}[type(op)])
        raise Unsupported("comparison")

    def identical(self, a, b):
        simple = (type(None), bool, MissingT)
        if isinstance(a, simple) and isinstance(b, simple):
            return a is b
        if isinstance(b, simple) or isinstance(a, simple):
            if isinstance(a, simple):
                a, b = b, a
            # a is symbolic or structured, b is None/MISSING/bool
            if isinstance(a, Sym) and a.kind == "val":
                return a.term == self.as_val(b)
            return False
        if isinstance(a, (Sym, Obj)) and isinstance(b, (Sym, Obj)):
            try:
                return self.as_ev(a) == self.as_ev(b)
            except Unsupported:
                return self.as_val(a) == self.as_val(b)
        if isinstance(a, Builtin) and isinstance(b, Builtin):
            return a.name == b.name
        if isinstance(a, ClassRef) and isinstance(b, ClassRef):
            return a.name == b.name
        return a is b

    def equal(self, a, b):
        prim = (str, int, bool, type(None), MissingT)
        if isinstance(a, prim) and isinstance(b, prim):
            return a == b
        # objects with a repo __eq__
        for x, y in ((a, b),):
            ci = self.class_of(x)
            if ci is not None:
                owner, m = self.repo.find_method(ci, "__eq__")
                if m is not None:
                    r = self.call_pyfunc(PyFunc(m, owner.module, owner=owner), [x, y], {})
                    return self.as_bool_term(r) if not isinstance(r, bool) else r
                return self.identical(a, b)
        if isinstance(a, KSetV) and isinstance(b, KSetV):
            q = self.bound("q", T.Key)
            return z3.ForAll([q], a.mem(q) == b.mem(q))
        if isinstance(a, (PyFunc, Builtin, ClassRef)) and isinstance(b, (PyFunc, Builtin, ClassRef)):
            if isinstance(a, PyFunc) and isinstance(b, PyFunc):
                return a.node is b.node
            return self.identical(a, b)
        if isinstance(a, (PyTuple, PyList)) and isinstance(b, (PyTuple, PyList)) and len(a.items) == len(b.items):
            rs = [self.equal(x, y) for x, y in zip(a.items, b.items)]
            if all(isinstance(r, bool) for r in rs):
                return all(rs)
            return z3.And(*[r if z3.is_expr(r) else z3.BoolVal(r) for r in rs])
        ta, tb = self.as_val(a), self.as_val(b)
        if ta.eq(tb):
            return True
        return T.pyeq(ta, tb)

    def contains(self, container, item):
        if isinstance(container, PyDict):
            if isinstance(item, (str, int, bool, type(None))):
                return item in container.items
            raise Unsupported("symbolic key in concrete dict")
        if isinstance(container, (PyTuple, PyList)):
            rs = [self.equal(item, x) for x in container.items]
            if all(isinstance(r, bool) for r in rs):
                return any(rs)
            return z3.Or(*[r if z3.is_expr(r) else z3.BoolVal(r) for r in rs])
        if isinstance(container, KSetV):
            return container.mem(self.as_key(item))
        if isinstance(container, MapV):
            if container.has is None:
                raise Unsupported("membership in derived mapping")
            return container.has(self.as_val(item))
        if isinstance(container, Sym) and container.kind == "opt":
            return T.haskey_top(container.term, self.as_key(item))
        if isinstance(container, Sym) and container.kind == "val":
            return T.contains(container.term, self.as_val(item))
        if isinstance(container, HeapMap):
            return self.heapmap_has(container, item)
        raise Unsupported(f"membership in {container!r}")

    def e_BinOp(self, node, env):
        a = self.eval(node.left, env)
        b = self.eval(node.right, env)
        if isinstance(node.op, ast.BitOr):
            if isinstance(a, KSetV) and isinstance(b, KSetV):
                return a.union(b)
            if isinstance(a, PyDict) and isinstance(b, PyDict):
                return PyDict({**a.items, **b.items})
        if isinstance(node.op, ast.Sub) and isinstance(a, KSetV):
            return self.kset_minus(a, b)
        if isinstance(node.op, (ast.Add, ast.Sub)) and (isinstance(a, Sym) and a.kind == "int" or isinstance(b, Sym) and b.kind == "int") \
                and not isinstance(a, KSetV):
            x, y = self.as_int(a), self.as_int(b)
            return Sym("int", x + y if isinstance(node.op, ast.Add) else x - y)
        if isinstance(node.op, ast.Add):
            if isinstance(a, int) and isinstance(b, int):
                return a + b
            if isinstance(a, str) and isinstance(b, str):
                return a + b
            if isinstance(a, PyList) and isinstance(b, PyList):
                return PyList(a.items + b.items)
            if isinstance(a, PyTuple) and isinstance(b, PyTuple):
                return PyTuple(a.items + b.items)
            return self.dunder(a, "__add__", b)
        if isinstance(node.op, ast.RShift):
            return self.dunder(a, "__rshift__", b)
        raise Unsupported(f"binop {type(node.op).__name__} on {a!r}, {b!r}")

    def dunder(self, a, name, b):
        ci = self.class_of(a)
        if ci is not None:
            owner, m = self.repo.find_method(ci, name)
            if m is not None:
                return self.call_pyfunc(PyFunc(m, owner.module, owner=owner), [a, b], {})
        raise Unsupported(f"{name} on {a!r}")

    def e_Subscript(self, node, env):
        v = self.eval(node.value, env)
        if isinstance(v, ClassRef) or (isinstance(v, Builtin) and v.name.startswith("typing")):
            # Generic alias: Option[Options](...) / Iter[Union[K, V]](...)
            if isinstance(v, ClassRef) and v.ci is not None:
                owner, m = self.repo.find_method(v.ci, "__class_getitem__")
                if m is not None:
                    return Partial(v, [], {"type": Sym("val", self.fresh("type", T.Val))})
            return v
        if isinstance(node.slice, ast.Slice):
            idx = node.slice
            if isinstance(v, (PyTuple, PyList)):
                lo = self.eval(idx.lower, env) if idx.lower else None
                hi = self.eval(idx.upper, env) if idx.upper else None
                return type(v)(v.items[lo:hi])
            if isinstance(v, SeqV) and idx.lower is None and idx.upper is not None and idx.step is None:
                hi = self.as_int(self.eval(idx.upper, env))
                # v[:hi] for 0 <= hi  (python clamps at len)
                n2 = z3.If(hi < 0, z3.IntVal(0), z3.If(hi > v.n, v.n, hi))
                if self.fork(hi < 0):
                    raise Unsupported("negative slice bound on symbolic sequence")
                return SeqV(n2, v.elem, v.kind)
            if isinstance(v, Sym) and v.kind in ("key", "val") and idx.lower is not None and idx.upper is not None \
                    and ast.unparse(idx.lower) == "1" and ast.unparse(idx.upper) == "-1":
                return Sym("key", T.pname(self.as_key(v)))
            raise Unsupported("slice")
        i = self.eval(node.slice, env)
        return self.getitem(v, i)

    def getitem(self, v, i):
        if isinstance(v, (PyTuple, PyList)):
            if isinstance(i, int):
                if -len(v.items) <= i < len(v.items):
                    return v.items[i]
                self.do_raise(self.make_builtin_exc("IndexError", []))
            raise Unsupported("symbolic index into concrete sequence")
        if isinstance(v, PyDict):
            k = self.hashable(i) if not isinstance(i, Sym) else None
            if k is not None:
                if k in v.items:
                    return v.items[k]
                self.do_raise(self.make_builtin_exc("KeyError", [i]))
            raise Unsupported("symbolic key into concrete dict")
        if isinstance(v, MapV):
            if v.has is None:
                raise Unsupported("lookup in derived mapping")
            t = self.as_val(i)
            if self.fork(v.has(t)):
                return v.at(t)
            self.do_raise(self.make_builtin_exc("KeyError", [i]))
        if isinstance(v, SeqV):
            n = v.n
            if isinstance(i, int) and i == -1:
                if self.fork(n > 0):
                    return v.elem(n - 1)
                self.do_raise(self.make_builtin_exc("IndexError", []))
            it = self.as_int(i)
            if self.fork(z3.And(it >= 0, it < n)):
                return v.elem(it)
            self.do_raise(self.make_builtin_exc("IndexError", []))
        if isinstance(v, HeapMap):
            return self.heapmap_get(v, i)
        if isinstance(v, ArrDict):
            kt = self.as_val(i)
            if self.fork(v.present[kt]):
                return Sym("val", v.vals[kt])
            self.do_raise(self.make_builtin_exc("KeyError", []))
        if isinstance(v, Sym) and v.kind == "opt":
            k = self.as_key(i)
            if self.fork(T.haskey_top(v.term, k)):
                return Sym("val", T.get(v.term, k))
            self.do_raise(self.make_builtin_exc("KeyError", [i]))
        if isinstance(v, Obj) and v.cls is not None:
            owner, m = self.repo.find_method(v.cls, "__getitem__")
            if m is not None:
                return self.call_pyfunc(PyFunc(m, owner.module, owner=owner), [v, i], {})
        raise Unsupported(f"subscript of {v!r}")

    def e_Starred(self, node, env):
        raise Unsupported("starred outside call/display")

    def e_NamedExpr(self, node, env):
        v = self.eval(node.value, env)
        env.vars[node.target.id] = v
        return v

    # ------------------------------------------------------------------ attribute access
    def e_Attribute(self, node, env):
        v = self.eval(node.value, env)
        return self.getattr(v, node.attr)

    def getattr(self, v, name, default=Ellipsis):
        from .interp import SuperProxy, ModularMethod
        if isinstance(v, SuperProxy):
            mro = self.repo.mro(v.obj.cls if isinstance(v.obj, Obj) else self.class_of(v.obj))
            idx = mro.index(v.after_cls)
            for c in mro[idx + 1:]:
                if name in c.methods:
                    return BoundMethod(v.obj, PyFunc(c.methods[name], c.module, owner=c))
            return Builtin("noop")
        if isinstance(v, Obj):
            if name in v.fields:
                x = v.fields[name]
                if isinstance(x, Poison):
                    raise Unsupported("poisoned field")
                return x
            if v.cls is None:
                if name == "args":
                    return v.fields.get("args", PyTuple([]))
                raise Unsupported(f"attr {name} of builtin exception")
            if name in LABREA_IMPL:
                owner, m = self.repo.find_method(v.cls, LABREA_IMPL[name])
                return BoundMethod(v, PyFunc(m, owner.module, owner=owner))
            if name in IFACE and self.repo.is_subclass(v.cls, "Evaluatable") or \
                    (name in ("validate", "explain") and self.repo.is_subclass(v.cls, "Effect")):
                if self.repo.is_subclass(v.cls, "Evaluatable"):
                    return Builtin_public(v, name)
            if name == "run" and self.repo.is_subclass(v.cls, "Request"):
                return Builtin_request(v)
            r = self.class_attr(v, v.cls, name)
            if r is not Ellipsis:
                return r
            if name == "__class__":
                if v.cls.name == "_DatasetClassMixin":
                    # the receiver is an instance of SOME dataset class: its class is an (abstract) instance of the metaclass
                    return Sym("ev", z3.Function("clsof", T.Ev, T.Ev)(v.term), self.repo.find_class("_DatasetClassMeta"))
                return ClassRef(v.cls)
            if name == "__dict__":
                d = PyDict()
                d.items = v.fields      # live view: obj.__dict__.update(...) sets attributes
                return d
            if name == "__doc__":
                return None
            if name == "__module__":
                return v.cls.module.name
            # lazily created symbolic field (receiver under verification)
            try:
                x = self.field_from_annotation(v, v.cls, name)
            except Unsupported:
                if default is not Ellipsis:
                    return default
                raise
            v.fields[name] = x
            return x
        if isinstance(v, Sym) and v.kind == "ev":
            ci = v.cls or self.repo.find_class("Evaluatable")
            is_ev = self.repo.is_subclass(ci, "Evaluatable") or ci.name == "Evaluatable"
            if name in IFACE and (is_ev or name in ("validate", "explain")):
                return ModularMethod(v, name)
            if name == "transform" and not is_ev:
                return ModularMethod(v, name)
            if name in ("get", "set", "exists") and (self.repo.is_subclass(ci, "Cache") or ci.name == "Cache"):
                return Builtin_cache(v, name)
            if name in LABREA_IMPL:
                raise Unsupported("__labrea_*__ on abstract child")
            r = self.class_attr(v, ci, name)
            if r is not Ellipsis:
                return r
            return self.field_from_annotation(v, ci, name)
        if isinstance(v, Sym) and v.kind == "val":
            # a value known (by the path condition) to be an evaluatable
            if name in IFACE or name in ("apply", "bind", "__call__"):
                return self.getattr(Sym("ev", T.ev_of(v.term)), name)
            nk = self.narrow.get(str(v.term))
            if nk is not None:
                return self.getattr(Sym("ev", T.ev_of(v.term), nk), name)
            if name in ("items", "keys", "values", "get", "copy", "startswith", "strip", "splitlines", "join", "format", "replace"):
                return Builtin_valmethod(v, name)
            if name.startswith("__"):
                raise Unsupported(f"attribute {name} of opaque value")
            return Sym("val", z3.Function("attr!" + name, T.Val, T.Val)(v.term))
        if isinstance(v, ExcSym):
            if name == "source":
                return Sym("ev", T.exc_src(v.term))
            if name == "key":
                return Sym("key", T.exc_key(v.term))
            if name == "args":
                # KeyError raised by a dependency lookup carries exactly the key; any other exception may carry any number of arguments (also none)
                if getattr(v, "keyerror", False) or (v.bound is None and not v.user):
                    return SeqV(z3.IntVal(1), lambda i: Sym("key", T.exc_key(v.term)), "tuple")
                n = z3.Function("exc_nargs", T.Exc, T.I)(v.term)
                self.define(n >= 0)
                argf = z3.Function("exc_arg", T.Exc, T.I, T.Val)
                return SeqV(n, lambda i: Sym("val", argf(v.term, i)), "tuple")
            raise Unsupported(f"attribute {name} of symbolic exception")
        if isinstance(v, ClassRef):
            if v.ci is not None:
                for c in self.repo.mro(v.ci):
                    if name in c.methods:
                        f = PyFunc(c.methods[name], c.module, owner=c)
                        if name in c.classmethods:
                            return BoundMethod(v, f)
                        return f
                    if name in c.assigns:
                        from .symex import Env
                        return self.eval(c.assigns[name], Env(c.module))
                if name == "__name__":
                    return v.ci.name
                if name == "handle":
                    return Builtin("Request.handle")
            if name in ("__name__", "__qualname__"):
                return v.name
            if v.builtin == "str" and name == "upper":
                return Builtin("str.upper")
            raise Unsupported(f"class attribute {v.name}.{name}")
        if isinstance(v, ModRef):
            if v.name in self.repo.modules:
                return self.module_name(self.repo.modules[v.name], name)
            return self.external(v.name, name)
        if isinstance(v, (PyDict, PyList, PyTuple, KSetV, MapV, SeqV, HeapMap, LockV, Partial, ArrDict, HeapListRef)) or type(v).__name__ in ('LoggerV', 'RegexV', 'MapKeys', 'JsonText') or (isinstance(v, Sym) and v.kind in ("opt", "key")) \
                or isinstance(v, str):
            return Builtin_valmethod(v, name)
        if isinstance(v, PyFunc):
            if name in v.attrs:
                return v.attrs[name]
            if name in ("__name__", "__qualname__"):
                return v.name
            if default is not Ellipsis:
                return default
            raise Unsupported(f"function attribute {name}")
        if isinstance(v, Builtin) and v.name.startswith("param:"):
            return Builtin(v.name + "." + name)
        if default is not Ellipsis:
            return default
        raise Unsupported(f"attribute {name} of {v!r}")

    def class_attr(self, recv, ci, name):
        for c in self.repo.mro(ci):
            if name in c.methods:
                f = PyFunc(c.methods[name], c.module, owner=c)
                if name in c.properties:
                    return self.call_pyfunc(f, [recv], {})
                if name in c.staticmethods:
                    return f
                if name in c.classmethods:
                    return BoundMethod(ClassRef(ci), f)
                return BoundMethod(recv, f)
            if name in c.assigns:
                from .symex import Env
                return self.eval(c.assigns[name], Env(c.module))
        return Ellipsis

    # ------------------------------------------------------------------ calls
    def e_Call(self, node, env):
        # super()
        if isinstance(node.func, ast.Name) and node.func.id == "super" and not node.args:
            from .interp import SuperProxy
            f = self.stack[-1]
            selfname = f.node.args.args[0].arg
            return SuperProxy(env.lookup(selfname), f.owner)
        if isinstance(node.func, ast.Name) and node.func.id == "cast" and len(node.args) == 2:
            return self.eval(node.args[1], env)
        f = self.eval(node.func, env)
        args = []
        for a in node.args:
            if isinstance(a, ast.Starred):
                v = self.eval(a.value, env)
                if isinstance(v, Delayed):
                    v = self.force(v)
                if isinstance(v, (PyTuple, PyList)):
                    args.extend(v.items)
                else:
                    args.append(("*", v))
            else:
                args.append(self.eval(a, env))
        kwargs = {}
        for k in node.keywords:
            if k.arg is None:
                v = self.eval(k.value, env)
                if isinstance(v, PyDict):
                    for kk, vv in v.items.items():
                        kwargs[kk] = vv
                elif isinstance(v, MapV) or (isinstance(v, Sym)):
                    kwargs["**"] = v
                else:
                    raise Unsupported(f"** of {v!r}")
            else:
                kwargs[k.arg] = self.eval(k.value, env)
        return self.call(f, args, kwargs)

    # ------------------------------------------------------------------ comprehensions -> interp_loop
    def e_ListComp(self, node, env):
        return self.comprehension(node, env, "list")

    def e_SetComp(self, node, env):
        return self.comprehension(node, env, "set")

    def e_DictComp(self, node, env):
        r = self.arrdict_filter_comp(node, env)
        if r is not None:
            return r
        return self.comprehension(node, env, "dict")

    def arrdict_filter_comp(self, node, env):
        """{k: v for k, v in D.items() if c1 if c2 ...} over an opaque-key mapping D (two arrays): exactly the entries of D whose
        (key, value) satisfy every condition.  Only when D is a pure name/attribute chain and the conditions evaluate without forking."""
        from .symex import Env
        if len(node.generators) != 1:
            return None
        g = node.generators[0]
        it, tgt = g.iter, g.target
        if not (isinstance(it, ast.Call) and isinstance(it.func, ast.Attribute) and it.func.attr == "items" and not it.args and not it.keywords):
            return None
        src = it.func.value
        while isinstance(src, ast.Attribute):
            src = src.value
        if not isinstance(src, ast.Name):
            return None
        if not (isinstance(tgt, ast.Tuple) and len(tgt.elts) == 2 and all(isinstance(e, ast.Name) for e in tgt.elts)):
            return None
        kn, vn = tgt.elts[0].id, tgt.elts[1].id
        if not (isinstance(node.key, ast.Name) and node.key.id == kn and isinstance(node.value, ast.Name) and node.value.id == vn):
            return None
        d = self.eval(it.func.value, env)
        if not isinstance(d, ArrDict):
            return None
        kc = self.bound("k", T.Val)
        e = Env(env.module, env, {kn: Sym("val", kc), vn: Sym("val", d.vals[kc])})
        npc = len(self.pc)
        conds = [self.as_bool_term(self.eval(c, e)) for c in g.ifs]
        if len(self.pc) != npc:
            raise Unsupported("forking condition in a filtered dict comprehension over an opaque mapping")
        return ArrDict(z3.Lambda([kc], z3.And(d.present[kc], *conds)), d.vals)

    def e_GeneratorExp(self, node, env):
        from .symex import Env
        snap = Env(env.module, env, {})
        d = Delayed(lambda: self.comprehension(node, snap, "gen"))
        d.node, d.env = node, snap          # for consumers that stop early (all / any)
        return d

    def force(self, d):
        if d.forced is None:
            d.forced = d.force()
        return d.forced


class StarMix(Exception):
    def __init__(self, out):
        self.out = out


class StarOnly(Exception):
    def __init__(self, v):
        self.v = v


class StarThen(Exception):
    def __init__(self, v, extra):
        self.v, self.extra = v, extra


class Builtin_public(Builtin):
    """public interface method of an inlined object"""

    def __init__(self, obj, meth):
        super().__init__("public:" + meth)
        self.obj, self.meth = obj, meth


class Builtin_cache(Builtin):
    def __init__(self, cache, meth):
        super().__init__("cache:" + meth)
        self.cache, self.meth = cache, meth


class Builtin_valmethod(Builtin):
    def __init__(self, recv, meth):
        super().__init__("method:" + meth)
        self.recv, self.meth = recv, meth


class Builtin_request(Builtin):
    def __init__(self, req):
        super().__init__("request:run")
        self.req = req
