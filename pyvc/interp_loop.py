"""Loops and comprehensions; symbolic-length iteration by generic-element summarisation
(part 5 of the symbolic executor).

A loop over a sequence of symbolic length n (or over a symbolic key set S) is executed once on a
*generic* element (index i, resp. key k), under every resolution of the forks of its body.  The
paths of the body are then summarised:
  * all iterations complete normally:   forall i in dom. OR_p cond_p(i)   (+ definitions, guarded)
  * the loop leaves at the first index j by exit path p:  dom(j) & cond_p(j) & forall i<j. normal(i)
Fresh symbols created inside the body are functions of the bound variable.
"""
from __future__ import annotations

import ast

import z3

from . import theory as T
from .values import *  # noqa
from .symex import PyRaise, ReturnSig, BreakSig, ContinueSig, Env, Oracle


class BodyPath:
    def __init__(self, kind, value, pc, defs, trace, vars, ksdelta, tags=()):
        self.kind, self.value, self.pc, self.defs, self.trace, self.vars, self.ksdelta = kind, value, pc, defs, trace, vars, ksdelta
        self.tags = list(tags)

    @property
    def cond(self):
        return z3.And(*self.pc) if self.pc else z3.BoolVal(True)


class LoopMixin:
    generic = None  # stack of bound variables

    # ------------------------------------------------------------------ fresh symbols inside generic bodies
    def fresh(self, kind, sort):
        self.n += 1
        g = getattr(self, "_generic", [])
        if g:
            f = z3.Function(f"{self.tag}!{kind}{self.n}", *[b.sort() for b in g], sort)
            return f(*g)
        return z3.Const(f"{self.tag}!{kind}{self.n}", sort)

    def bound(self, kind, sort):
        self.n += 1
        return z3.Const(f"{self.tag}!{kind}{self.n}", sort)

    # ------------------------------------------------------------------ domains
    def iter_domain(self, it):
        if isinstance(it, Delayed):
            it = self.force(it)
        if isinstance(it, (PyTuple, PyList)):
            return "list", list(it.items)
        if isinstance(it, PyDict):
            return "list", list(it.items.keys())
        if isinstance(it, SeqV):
            if isinstance(it.n, int):
                return "list", [it.elem(z3.IntVal(i)) for i in range(it.n)]
            return "seq", it
        if isinstance(it, MapV):
            return "seq", SeqV(it.n, it.key)
        if isinstance(it, KSetV):
            return "kset", it
        if type(it).__name__ == "SortedKeys":
            return "sorted", it
        if type(it).__name__ == "ZipV":
            a, b = it.xs
            n = z3.If(a.n <= b.n, a.n, b.n)
            return "seq", SeqV(n, lambda i: PyTuple([a.elem(i), b.elem(i)]))
        if isinstance(it, Sym) and it.kind == "opt":
            return "kset", KSetV([("term", T.topkeys(it.term))])
        if isinstance(it, Sym) and it.kind == "val":
            t = it.term      # iteration over a JSON list value: its elements
            return "seq", SeqV(T.vnchild(t), lambda i: Sym("val", T.vchild(t, i)))
        raise Unsupported(f"iteration over {it!r}")

    # ------------------------------------------------------------------ sub-exploration
    def sub_explore(self, fn, env_child=None, ks_watch=()):
        saved_orc = self.oracle
        base = (len(self.pc), len(self.defs), len(self.trace), self.n, self.primordial, dict(self.heap), len(self.tags))
        ks_snap = [(ks, list(ks.parts)) for ks in ks_watch]
        results = []
        prefix = []
        count = 0
        while prefix is not None:
            self.oracle = Oracle(prefix)
            if env_child is not None:
                env_child.vars.clear()
            kind, v = "ok", None
            try:
                v = fn()
            except PyRaise as r:
                kind, v = "exc", r.exc
            except ReturnSig as r:
                kind, v = "ret", r.value
            except BreakSig:
                kind = "brk"
            except ContinueSig:
                kind = "ok"
            ksdelta = [(ks, ks.parts[len(old):]) for ks, old in ks_snap]
            results.append(BodyPath(kind, v, self.pc[base[0]:], self.defs[base[1]:], self.trace[base[2]:],
                                    dict(env_child.vars) if env_child is not None else {}, ksdelta, self.tags[base[6]:]))
            prefix = self.oracle.next_prefix()
            del self.pc[base[0]:]
            del self.defs[base[1]:]
            del self.trace[base[2]:]
            del self.tags[base[6]:]
            # NB: the fresh-name counter is NOT reset: sibling body paths get distinct symbol names
            self.primordial = base[4]
            self.heap = dict(base[5])
            for ks, old in ks_snap:
                ks.parts[:] = old
            count += 1
            if count > 200:
                raise Unsupported("path explosion in loop body")
        self.oracle = saved_orc
        return results

    def generic_run(self, domkind, dom, body, env_child=None, ks_watch=()):
        """returns (bv, domcond(bv), elem, paths)"""
        self.n += 1
        if domkind == "seq":
            bv = z3.Const(f"{self.tag}!i{self.n}", T.I)
            domc = lambda b: z3.And(b >= 0, b < dom.n)
            elem = dom.elem(bv)
        else:
            bv = z3.Const(f"{self.tag}!k{self.n}", T.Key)
            domc = lambda b: dom.mem(b)
            elem = Sym("key", bv)
        g = getattr(self, "_generic", [])
        self._generic = g + [bv]
        try:
            paths = self.sub_explore(lambda: (self.assume(domc(bv)), body(elem))[1], env_child, ks_watch)
        finally:
            self._generic = g
        if any(p.kind == "unsupported" for p in paths):
            raise Unsupported("loop body")
        return bv, domc, elem, paths

    def assume_all_normal(self, bv, domc, normal, upto=None):
        """forall b in dom (b < upto): some normal path applies, with its definitions"""
        rng = domc(bv) if upto is None else z3.And(domc(bv), bv < upto)
        conds = [p.cond for p in normal]
        self.assume(z3.ForAll([bv], z3.Implies(rng, z3.Or(*conds) if conds else z3.BoolVal(False))))
        for p in normal:
            for d in p.defs:
                self.define(z3.ForAll([bv], z3.Implies(z3.And(rng, p.cond), d)))

    def take_exit(self, domkind, bv, domc, normal, p):
        """the loop leaves through body path p at the first index j (sequences) / at some key (sets)"""
        self.n += 1
        if domkind == "seq":
            j = z3.Const(f"{self.tag}!j{self.n}", T.I)
        else:
            j = z3.Const(f"{self.tag}!kk{self.n}", T.Key)
        pairs = [(bv, j)]
        self.assume(domc(j))
        for c in p.pc:
            self.assume(z3.substitute(c, *pairs))
        for d in p.defs:
            self.define(z3.substitute(d, *pairs))
        if domkind == "seq":
            self.assume_all_normal(bv, domc, normal, upto=j)
        self.tags.extend(p.tags)
        self.trace.append(("loop-prefix", bv, j, [(q.cond, q.trace) for q in normal]))
        for ev in p.trace:
            self.trace.append(subst_event(ev, pairs))
        return j, pairs

    # ------------------------------------------------------------------ comprehensions
    def comprehension(self, node, env, kind):
        gens = node.generators
        if kind == "dict":
            elt = lambda e: PyTuple([self.eval(node.key, e), self.eval(node.value, e)])
        else:
            elt = lambda e: self.eval(node.elt, e)
        res = self.comp_gen(gens, 0, env, elt, kind)
        return res

    def comp_gen(self, gens, gi, env, elt, kind):
        """returns for kind list/gen: PyList | SeqV ; set: KSetV (keys) or PyList ; dict: PyDict | MapV"""
        g = gens[gi]
        it = self.eval(g.iter, env)
        domkind, dom = self.iter_domain(it)
        last = gi == len(gens) - 1

        def body(elem, e):
            self.assign(g.target, elem, e)
            for cond in g.ifs:
                if not self.truth(self.eval(cond, e)):
                    return ("skip",)
            if last:
                return ("yield", elt(e))
            return ("nested", self.comp_gen(gens, gi + 1, e, elt, kind))

        if domkind == "list":
            out = []
            for x in dom:
                e = Env(env.module, env)
                r = body(x, e)
                if r[0] == "yield":
                    out.append(r[1])
                elif r[0] == "nested":
                    out.append(("nested", r[1]))
            return self.comp_collect_concrete(out, kind)
        # symbolic domain
        ech = Env(env.module, env)
        sorted_src = None
        if domkind == "sorted":
            sorted_src, dom, domkind = dom, dom.ks, "kset"
        bv, domc, elem, paths = self.generic_run(domkind, dom, lambda el: body(el, ech), ech)
        normal = [p for p in paths if p.kind == "ok"]
        exits = [p for p in paths if p.kind != "ok"]
        ch = self.choose(1 + len(exits))
        if ch > 0:
            p = exits[ch - 1]
            j, pairs = self.take_exit(domkind, bv, domc, normal, p)
            if p.kind == "exc":
                raise PyRaise(subst(p.value, pairs))
            raise Unsupported("non-exception exit from comprehension")
        self.assume_all_normal(bv, domc, normal)
        self.trace.append(("loop", bv, None, [(q.cond, q.trace) for q in normal]))
        ys = [p for p in normal if p.value[0] != "skip"]
        if not normal and not exits:
            # no feasible iteration at all: the domain is empty on this path
            return PyList([]) if kind in ("list", "gen") else (KSetV() if kind == "set" else PyDict())
        if not ys and kind == "dict":
            return PyDict()
        if kind in ("list", "gen"):
            if len(ys) != len(normal):
                raise Unsupported("filtered list comprehension over symbolic sequence")
            if sorted_src is not None and len(ys) == 1 and ys[0].value[0] == "yield":
                # [f(k) for k in sorted(S)]: the list of f(k) in increasing key order (order fixed by the set alone)
                from .models import SortedMap
                return SortedMap(dom, bv, ys[0].value[1])
            if domkind != "seq":
                raise Unsupported("list comprehension over a set")
            if any(p.value[0] == "nested" for p in ys):
                raise Unsupported("nested list comprehension over symbolic sequence")
            merged = self.merge_values([(p.cond, p.value[1]) for p in ys])
            return SeqV(dom.n, lambda idx: subst(merged, [(bv, idx)]))
        if kind == "set":
            parts = []
            for p in ys:
                if p.value[0] == "nested":
                    inner = p.value[1]
                    if not isinstance(inner, KSetV):
                        raise Unsupported("nested set comprehension of non-keys")
                    parts.append(("big", [bv], z3.And(domc(bv), p.cond), inner.parts))
                else:
                    parts.append(("big", [bv], z3.And(domc(bv), p.cond), [("one", self.as_key(p.value[1]))]))
            return KSetV(parts)
        if kind == "dict":
            if len(ys) != len(normal) or domkind != "seq" or any(p.value[0] == "nested" for p in ys):
                raise Unsupported("dict comprehension shape")
            merged = self.merge_values([(p.cond, p.value[1]) for p in ys])
            if isinstance(it, Builtin) is False and getattr(self, "_last_items_src", None) is not None:
                src = self._last_items_src
                k0, v0 = merged.items
                sk, sv = src.key(bv), src.val(bv)
                if isinstance(k0, Sym) and isinstance(v0, Sym) and isinstance(sk, Sym) and isinstance(sv, Sym) \
                        and k0.term.eq(sk.term) and v0.term.eq(sv.term) and src.n is dom.n:
                    return src
            return MapV(dom.n, lambda idx: subst(merged.items[0], [(bv, idx)]), lambda idx: subst(merged.items[1], [(bv, idx)]))
        raise Unsupported(kind)

    def comp_collect_concrete(self, out, kind):
        flat = []
        for x in out:
            if isinstance(x, tuple) and x and x[0] == "nested":
                inner = x[1]
                if isinstance(inner, (PyList,)):
                    flat.extend(inner.items)
                elif isinstance(inner, KSetV):
                    flat.append(("kset", inner))
                elif isinstance(inner, PyDict):
                    flat.extend(PyTuple([k, v]) for k, v in inner.items.items())
                else:
                    raise Unsupported("nested symbolic comprehension inside concrete one")
            else:
                flat.append(x)
        if kind in ("list", "gen"):
            return PyList(flat)
        if kind == "set":
            ks = KSetV()
            for x in flat:
                if isinstance(x, tuple) and x[0] == "kset":
                    ks.parts.extend(x[1].parts)
                else:
                    ks.parts.append(("one", self.as_key(x)))
            return ks
        if kind == "dict":
            d = PyDict()
            sym = []
            for kv in flat:
                k, v = kv.items
                if isinstance(k, Sym):
                    sym.append((k, v))
                else:
                    d.items[self.hashable(k)] = v
            if sym:
                if d.items:
                    raise Unsupported("mixed symbolic/concrete dict comprehension")
                n = len(sym)
                return MapV(z3.IntVal(n), lambda i: _pick(i, [s[0] for s in sym], self), lambda i: _pick(i, [s[1] for s in sym], self))
            return d
        raise Unsupported(kind)

    def merge_values(self, alts):
        """merge per-path values [(cond, value)] into one value (ite on terms)"""
        if len(alts) == 1:
            return alts[0][1]
        vs = [v for _, v in alts]
        if all(isinstance(v, Sym) for v in vs) and len({v.kind for v in vs}) == 1:
            t = vs[-1].term
            for c, v in reversed(alts[:-1]):
                t = z3.If(c, v.term, t)
            return Sym(vs[0].kind, t, vs[0].cls)
        if all(isinstance(v, PyTuple) for v in vs) and len({len(v.items) for v in vs}) == 1:
            return PyTuple([self.merge_values([(c, v.items[i]) for c, v in alts]) for i in range(len(vs[0].items))])
        if all(v is None for v in vs):
            return None
        if all(isinstance(v, (Sym, Obj)) or v is None or isinstance(v, (bool, str, int, MissingT)) for v in vs):
            t = self.as_val(vs[-1])
            for c, v in reversed(alts[:-1]):
                t = z3.If(c, self.as_val(v), t)
            return Sym("val", t)
        if all(isinstance(v, KSetV) for v in vs):
            return KSetV([("big", [], c, v.parts) for c, v in alts])
        raise Unsupported(f"cannot merge loop values {vs!r}")

    # ------------------------------------------------------------------ for loops
    def for_loop(self, st, it, env):
        for lc in self.config.get("loop_contracts", ()):
            if lc(self, st, it, env):
                return
        domkind, dom = self.iter_domain(it)
        if domkind == "sorted":
            domkind, dom = "kset", dom.ks
        if domkind == "list":
            for x in dom:
                self.assign(st.target, x, env)
                try:
                    self.exec_block(st.body, env)
                except ContinueSig:
                    continue
                except BreakSig:
                    break
            else:
                self.exec_block(st.orelse, env)
            return
        if st.orelse:
            raise Unsupported("for-else over symbolic sequence")
        assigned = _assigned_names(st.body) - _assigned_names([ast.Assign([st.target], ast.Constant(0))])
        ech = Env(env.module, env)
        ks_watch = []
        e = env
        while e is not None:
            ks_watch.extend(v for v in e.vars.values() if isinstance(v, KSetV))
            e = e.parent

        def body(elem):
            for nm in assigned:
                if env.has(nm) and not isinstance(env.lookup(nm), KSetV):
                    ech.vars[nm] = Poison(nm)
            self.assign(st.target, elem, ech)
            self.exec_block(st.body, ech)
            return None

        bv, domc, elem, paths = self.generic_run(domkind, dom, body, ech, ks_watch)
        normal = [p for p in paths if p.kind == "ok"]
        exits = [p for p in paths if p.kind != "ok"]
        ch = self.choose(1 + len(exits))
        if ch > 0:
            p = exits[ch - 1]
            j, pairs = self.take_exit(domkind, bv, domc, normal, p)
            # accumulators: prefix contributions + the exit path's own
            self._apply_ks(bv, domc, normal, upto=j if domkind == "seq" else None)
            for ks, delta in p.ksdelta:
                ks.parts.extend(subst(KSetV(delta), pairs).parts)
            if p.kind == "exc":
                raise PyRaise(subst(p.value, pairs))
            if p.kind == "ret":
                raise ReturnSig(subst(p.value, pairs))
            raise Unsupported("break out of symbolic loop")
        self.assume_all_normal(bv, domc, normal)
        self.trace.append(("loop", bv, None, [(q.cond, q.trace) for q in normal]))
        self._apply_ks(bv, domc, normal)
        # last-writer semantics for plain variables assigned in the body
        carried = [nm for nm in assigned if any(nm in p.vars and not isinstance(p.vars[nm], (Poison, KSetV)) for p in normal)]
        if carried:
            if domkind != "seq":
                raise Unsupported("variable carried out of a set loop")
            if self.fork(dom.n > 0):
                pi = self.choose(len(normal))
                p = normal[pi]
                last = dom.n - 1
                pairs = [(bv, last)]
                for c in p.pc:
                    self.assume(z3.substitute(c, *pairs))
                for nm in carried:
                    if nm not in p.vars or isinstance(p.vars[nm], Poison):
                        raise Unsupported(f"variable {nm} not assigned on every continuing path")
                    env.vars[nm] = subst(p.vars[nm], pairs)

    def _apply_ks(self, bv, domc, normal, upto=None):
        rng = domc(bv) if upto is None else z3.And(domc(bv), bv < upto)
        for p in normal:
            for ks, delta in p.ksdelta:
                if delta:
                    ks.parts.append(("big", [bv], z3.And(rng, p.cond), list(delta)))

    # ------------------------------------------------------------------ generator functions (yield)
    def run_generator(self, f, env):
        out = []

        def run(body):
            for st in body:
                if isinstance(st, ast.Expr) and isinstance(st.value, ast.YieldFrom):
                    v = self.eval(st.value.value, env)
                    out.append(("from", v))
                elif isinstance(st, ast.Expr) and isinstance(st.value, ast.Yield):
                    out.append(("one", self.eval(st.value.value, env)))
                elif isinstance(st, ast.If):
                    if self.truth(self.eval(st.test, env)):
                        run(st.body)
                    else:
                        run(st.orelse)
                elif isinstance(st, ast.Expr) and isinstance(st.value, ast.Constant):
                    pass
                else:
                    raise Unsupported("generator function shape")
        return Delayed(lambda: (run(f.node.body), GenResult(out))[1])


class GenResult:
    def __init__(self, parts):
        self.parts = parts


def _pick(i, vals, ex):
    t = ex.as_val(vals[-1])
    for idx in range(len(vals) - 2, -1, -1):
        t = z3.If(i == idx, ex.as_val(vals[idx]), t)
    return Sym("val", t)


def _assigned_names(body):
    out = set()
    for st in body:
        for n in ast.walk(st):
            if isinstance(n, ast.Name) and isinstance(n.ctx, ast.Store):
                out.add(n.id)
            elif isinstance(n, ast.ExceptHandler) and n.name:
                out.add(n.name)
    return out


def subst_event(ev, pairs):
    out = []
    for x in ev:
        if isinstance(x, z3.ExprRef):
            out.append(z3.substitute(x, *pairs))
        elif isinstance(x, (Sym, Obj, ExcSym, PyTuple, PyList, KSetV)):
            out.append(subst(x, pairs))
        else:
            out.append(x)
    return tuple(out)
