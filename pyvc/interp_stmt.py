"""Statement execution (part 4 of the symbolic executor)."""
from __future__ import annotations

import ast

import z3

from . import theory as T
from .values import *  # noqa
from .symex import PyRaise, ReturnSig, BreakSig, ContinueSig, Env


class StmtMixin:
    def exec_block(self, body, env):
        for st in body:
            self.exec(st, env)

    def exec(self, st, env):
        m = getattr(self, "s_" + type(st).__name__, None)
        if m is None:
            raise Unsupported(f"statement {type(st).__name__}")
        return m(st, env)

    def s_Pass(self, st, env):
        pass

    def s_Expr(self, st, env):
        if isinstance(st.value, ast.Constant):
            return  # docstring
        v = self.eval(st.value, env)
        if isinstance(v, Delayed):
            pass

    def s_Return(self, st, env):
        raise ReturnSig(self.eval(st.value, env) if st.value is not None else None)

    def s_Import(self, st, env):
        for a in st.names:
            env.vars[a.asname or a.name.split(".")[0]] = ModRef(a.name)

    def s_ImportFrom(self, st, env):
        mod = st.module or ""
        if st.level:
            mod = "labrea" + ("." + mod if mod else "")
        for a in st.names:
            if mod in self.repo.modules:
                env.vars[a.asname or a.name] = self.module_name(self.repo.modules[mod], a.name)
            else:
                env.vars[a.asname or a.name] = self.external(mod, a.name)

    def s_Assign(self, st, env):
        v = self.eval(st.value, env)
        for t in st.targets:
            self.assign(t, v, env)

    def s_AnnAssign(self, st, env):
        if st.value is not None:
            self.assign(st.target, self.eval(st.value, env), env)

    def s_AugAssign(self, st, env):
        cur = self.eval(ast.copy_location(_load(st.target), st.target), env)
        rhs = self.eval(st.value, env)
        if isinstance(st.op, ast.Add) and isinstance(cur, str):
            if isinstance(rhs, str):
                self.assign(st.target, cur + rhs, env)
            else:
                t = self.fresh("str", T.Val)
                self.define(T.isstr(t))
                self.assign(st.target, Sym("val", t), env)
            return
        if isinstance(st.op, ast.Add) and isinstance(cur, Sym) and cur.kind == "val":
            t = self.fresh("str", T.Val)
            self.assign(st.target, Sym("val", t), env)
            return
        if isinstance(st.op, ast.BitOr) and isinstance(cur, KSetV) and isinstance(rhs, KSetV):
            self.assign(st.target, cur.union(rhs), env)
            return
        raise Unsupported("augmented assignment")

    def assign(self, target, v, env):
        if isinstance(target, ast.Name):
            env.vars[target.id] = v
        elif isinstance(target, (ast.Tuple, ast.List)):
            if isinstance(v, Delayed):
                v = self.force(v)
            if isinstance(v, (PyTuple, PyList)) and len(v.items) == len(target.elts):
                for t, x in zip(target.elts, v.items):
                    self.assign(t, x, env)
            else:
                raise Unsupported(f"unpacking {v!r}")
        elif isinstance(target, ast.Attribute):
            obj = self.eval(target.value, env)
            self.setattr(obj, target.attr, v)
        elif isinstance(target, ast.Subscript):
            obj = self.eval(target.value, env)
            idx = self.eval(target.slice, env)
            self.setitem(obj, idx, v)
        else:
            raise Unsupported("assignment target")

    def setattr(self, obj, name, v):
        if isinstance(obj, Obj):
            hf = self.config.get("heap_fields", {})
            if obj.cls is not None and (obj.cls.name, name) in hf:
                return self.heap_field_store(obj, name, v)
            obj.fields[name] = v
            self.event("store", obj.term, name)
            return
        if isinstance(obj, PyFunc):
            obj.attrs[name] = v
            return
        if isinstance(obj, ClassRef) and obj.ci is not None:
            self.event("class-store", obj.ci.name, name, v)
            cs = self.config.setdefault("class_stores", {})
            self.heap.setdefault("class_attrs", {})
            self.heap["class_attrs"] = {**self.heap["class_attrs"], (obj.ci.name, name): v}
            return
        if isinstance(obj, Sym) and obj.kind == "ev":
            hf = self.config.get("heap_fields", {})
            ci = obj.cls
            if ci is not None and (ci.name, name) in hf:
                return self.heap_field_store(obj, name, v)
            self.event("store", obj.term, name)
            self.heap[("field", str(obj.term), name)] = v
            return
        raise Unsupported(f"attribute store on {obj!r}")

    def setitem(self, obj, idx, v):
        if isinstance(obj, (PyDict, PyList)):
            self.check_mut(obj)
        if isinstance(obj, PyDict):
            obj.items[self.hashable(idx)] = v
            return
        if isinstance(obj, HeapMap):
            return self.heapmap_set(obj, idx, v)
        if isinstance(obj, PyList) and isinstance(idx, int):
            obj.items[idx] = v
            return
        raise Unsupported(f"item store on {obj!r}")

    def s_If(self, st, env):
        if self.truth(self.eval(st.test, env)):
            self.exec_block(st.body, env)
        else:
            self.exec_block(st.orelse, env)

    def s_Assert(self, st, env):
        if not self.truth(self.eval(st.test, env)):
            self.do_raise(self.make_builtin_exc("AssertionError", []))

    def s_Raise(self, st, env):
        if st.exc is None:
            if not self.cur_exc:
                raise Unsupported("bare raise outside handler")
            raise PyRaise(self.cur_exc[-1])
        e = self.eval(st.exc, env)
        if st.cause is not None:
            c = self.eval(st.cause, env)
            self.do_raise(e, cause=c, explicit_cause=True)
        self.do_raise(e)

    def s_Try(self, st, env):
        try:
            try:
                self.exec_block(st.body, env)
            except PyRaise as r:
                handled = False
                for h in st.handlers:
                    if self.handler_matches(h, r.exc, env):
                        handled = True
                        if h.name:
                            env.vars[h.name] = r.exc
                        self.cur_exc.append(r.exc)
                        try:
                            self.exec_block(h.body, env)
                        finally:
                            self.cur_exc.pop()
                        break
                if not handled:
                    raise
            else:
                self.exec_block(st.orelse, env)
        finally:
            if st.finalbody:
                self.exec_block(st.finalbody, env)

    def handler_matches(self, h, exc, env):
        if h.type is None:
            return True
        t = self.eval(h.type, env)
        targets = t.items if isinstance(t, PyTuple) else [t]
        for c in targets:
            if not isinstance(c, ClassRef):
                raise Unsupported("except target")
            if self.exc_matches(exc, c.name):
                return True
        return False

    def s_With(self, st, env):
        for item in st.items:
            cm = self.eval(item.context_expr, env)
            if isinstance(cm, LockV):
                self.event("acquire", cm.name)
                try:
                    self.exec_block(st.body, env)
                finally:
                    self.event("release", cm.name)
                return
            raise Unsupported(f"with {cm!r}")

    def s_FunctionDef(self, st, env):
        f = PyFunc(st, env.module, env)
        for d in st.decorator_list:
            raise Unsupported("decorated nested def")
        env.vars[st.name] = f

    def s_For(self, st, env):
        it = self.eval(st.iter, env)
        self.for_loop(st, it, env)

    def s_While(self, st, env):
        raise Unsupported("while loop")

    def s_Continue(self, st, env):
        raise ContinueSig()

    def s_Break(self, st, env):
        raise BreakSig()

    def s_Global(self, st, env):
        pass

    def s_Delete(self, st, env):
        for t in st.targets:
            if isinstance(t, ast.Subscript):
                obj = self.eval(t.value, env)
                idx = self.eval(t.slice, env)
                if isinstance(obj, HeapMap):
                    st_ = self.heap[obj.name]
                    kt = self.heapmap_key(obj, idx)
                    self.event("heap-write", obj.name, kt)
                    if not self.fork(st_[0][kt]):
                        self.do_raise(self.make_builtin_exc("KeyError", []))
                    self.heap[obj.name] = (z3.Store(st_[0], kt, False),) + tuple(st_[1:])
                    continue
                if isinstance(obj, PyDict):
                    k = self.hashable(idx)
                    if k not in obj.items:
                        self.do_raise(self.make_builtin_exc("KeyError", []))
                    del obj.items[k]
                    continue
            raise Unsupported("del")


def _load(t):
    import copy
    t2 = copy.deepcopy(t)
    t2.ctx = ast.Load()
    return t2
