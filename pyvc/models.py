"""Models of builtins and assumed contracts of dependencies (part 6 of the symbolic executor).
Every dependency model corresponds to a clause listed in theory.ASSUMPTIONS."""
from __future__ import annotations

import ast

import z3

from . import theory as T
from .values import *  # noqa
from .symex import PyRaise, ReturnSig, Env

T.assume("dep.dir", "dir(cls) is the duplicate-free list of attribute names of the class and its bases")
T.assume("dep.deepcopy", "copy.deepcopy(v) is observationally v (and does not raise for JSON-like values)")
T.assume("dep.functools.partial", "functools.partial(f, *a, **k)(*b, **l) = f(*a, *b, **{**k, **l})")
T.assume("dep.json", "json.dumps(x).encode() is a deterministic, seed-independent, injective function of the ordered JSON tree x")
T.assume("dep.sorted", "sorted() of a set of str is the unique increasing list (independent of set iteration order)")
T.assume("dep.warnings", "warnings.warn only emits a warning (does not raise)")
T.assume("dep.logging", "logging.getLogger(name).log(level, msg) emits one record")
T.assume("dep.threading", "`with lock:` gives mutual exclusion; current_thread() is a per-thread constant")

isinst_fn = {}


def isinst_pred(name):
    if name not in isinst_fn:
        isinst_fn[name] = z3.Function("isinst_" + name, T.Ev, T.B)
    return isinst_fn[name]


isval_fn = {}


def isval_pred(name):
    if name not in isval_fn:
        isval_fn[name] = z3.Function("isval_" + name, T.Val, T.B)
    return isval_fn[name]


class ModelMixin:
    # ------------------------------------------------------------------ isinstance / callable
    def isinst(self, v, c) -> bool:
        if isinstance(c, PyTuple):
            return any(self.isinst(v, x) for x in c.items)
        if not isinstance(c, ClassRef):
            if isinstance(c, Builtin):
                return self.isinst_builtin(v, c.name.split(".")[-1])
            raise Unsupported(f"isinstance target {c!r}")
        if c.ci is not None:
            return self.isinst_repo(v, c.ci)
        return self.isinst_builtin(v, c.builtin)

    def isinst_repo(self, v, ci) -> bool:
        name = ci.name
        if isinstance(v, Delayed):
            return False
        if isinstance(v, Obj):
            if v.cls is None:
                return False
            return self.repo.is_subclass(v.cls, name)
        if isinstance(v, Sym) and v.kind == "ev":
            k = v.cls
            if k is None:
                k = self.repo.find_class("Evaluatable")
            if self.repo.is_subclass(k, name):
                return True
            if self.repo.is_subclass(ci, k.name):
                r = self.fork(isinst_pred(name)(v.term))
                return r
            # unrelated classes (no common concrete subclass in /repo)
            if any(self.repo.is_subclass(x, name) and self.repo.is_subclass(x, k.name) for x in self.repo.all_classes()):
                return self.fork(isinst_pred(name)(v.term))
            return False
        if isinstance(v, Sym) and v.kind == "val":
            nk = self.narrow.get(str(v.term))
            if nk is not None:
                return self.isinst_repo(Sym("ev", T.ev_of(v.term), nk), ci)
            isevlike = self.repo.is_subclass(ci, "Evaluatable") or name == "Evaluatable"
            if name == "Evaluatable":
                return self.fork(T.isev(v.term))
            if isevlike:
                r = self.fork(z3.And(T.isev(v.term), isinst_pred(name)(T.ev_of(v.term))))
                if r:
                    self.narrow[str(v.term)] = ci
                return r
            r = self.fork(z3.And(z3.Not(T.isstr(v.term)), z3.Not(T.isdict(v.term)), z3.Not(T.islist(v.term)),
                                 isval_pred(name)(v.term)))
            if r:
                self.narrow[str(v.term)] = ci
            return r
        if isinstance(v, ClassRef) and name in ("type",):
            return True
        return False

    def isinst_builtin(self, v, name) -> bool:
        if isinstance(v, Delayed):
            return False
        if name == "object":
            return True
        if name == "str":
            if isinstance(v, str):
                return True
            if isinstance(v, Sym) and v.kind == "key":
                return True
            if isinstance(v, Sym) and v.kind == "val":
                return self.fork(T.isstr(v.term))
            return False
        if name in ("dict", "Mapping"):
            if isinstance(v, (PyDict, MapV, HeapMap, ArrDict)):
                return True
            if isinstance(v, Sym) and v.kind == "opt":
                return True
            if isinstance(v, Sym) and v.kind == "val":
                return self.fork(T.isdict(v.term))
            return False
        if name == "list":
            if isinstance(v, PyList):
                return True
            if isinstance(v, Sym) and v.kind == "val":
                return self.fork(T.islist(v.term))
            return False
        if name == "tuple":
            return isinstance(v, PyTuple)
        if name in ("int", "float", "bool"):
            if isinstance(v, bool):
                return name in ("bool", "int")
            if isinstance(v, int):
                return name == "int"
            if isinstance(v, float):
                return name == "float"
            if isinstance(v, Sym) and v.kind == "bool":
                return name in ("bool", "int")
            if isinstance(v, Sym) and v.kind == "int":
                return name == "int"
            if isinstance(v, Sym) and v.kind == "val":
                return self.fork(z3.And(isval_pred(name)(v.term), z3.Not(T.isstr(v.term)), z3.Not(T.isdict(v.term)),
                                        z3.Not(T.islist(v.term)), z3.Not(T.isev(v.term))))
            return False
        if name == "type":
            if isinstance(v, ClassRef):
                return True
            if isinstance(v, Sym) and v.kind == "val":
                return self.fork(z3.And(isval_pred("type")(v.term), z3.Not(T.isstr(v.term)), z3.Not(T.isev(v.term))))
            return False
        if name == "Container":
            if isinstance(v, (PyList, PyTuple, PyDict, KSetV, MapV, SeqV, str)):
                return True
            if isinstance(v, Sym) and v.kind == "val":
                return self.fork(T.iscontainer(v.term))
            if isinstance(v, Sym) and v.kind in ("opt", "key"):
                return True
            return False
        if name in ("FunctionType",):
            if isinstance(v, PyFunc):
                return True
            if isinstance(v, Sym) and v.kind == "val":
                return self.fork(z3.And(isval_pred("FunctionType")(v.term), T.iscallable(v.term), z3.Not(T.isev(v.term))))
            return False
        if name == "staticmethod":
            return False
        if name in T.EXC_CLASSES or name == "Exception":
            if isinstance(v, (Obj, ExcSym)) and (isinstance(v, ExcSym) or v.is_exc):
                return self.exc_matches(v, name)
            return False
        raise Unsupported(f"isinstance(_, {name})")

    def is_callable(self, v) -> bool:
        if isinstance(v, (PyFunc, Builtin, ClassRef, BoundMethod, Partial)):
            return True
        if isinstance(v, Sym) and v.kind == "val":
            return self.fork(T.iscallable(v.term))
        if isinstance(v, (Sym, Obj)):
            ci = self.class_of(v)
            if ci is not None:
                _, m = self.repo.find_method(ci, "__call__")
                return m is not None
        return False

    # ------------------------------------------------------------------ builtin dispatch
    def call_builtin(self, name, args, kwargs):
        from .interp_expr import Builtin_public, Builtin_cache, Builtin_valmethod
        return self._call_builtin(name, args, kwargs)

    def _call_builtin(self, name, args, kwargs):
        m = getattr(self, "b_" + name.replace(".", "_").replace(":", "_"), None)
        if m is None:
            raise Unsupported(f"builtin {name}")
        return m(args, kwargs)

    def call(self, f, args, kwargs):  # extend Exec.call for the rich builtins
        from .interp_expr import Builtin_public, Builtin_cache, Builtin_valmethod
        if isinstance(f, Builtin_public):
            return self.call_public(f.obj, f.meth, args if args else [kwargs.get("options")])
        if isinstance(f, Builtin_cache):
            cm = self.config.get("cache_model")
            if cm is None:
                raise Unsupported("cache backend call without a cache contract")
            return cm(self, f.cache, f.meth, args, kwargs)
        if type(f).__name__ == "Builtin_request":
            return self.run_request(f.req)
        if isinstance(f, Builtin_valmethod):
            return self.value_method(f.recv, f.meth, args, kwargs)
        return self._call_core(f, args, kwargs)

    # ------------------------------------------------------------------ plain builtins
    def b_isinstance(self, a, k):
        return self.isinst(a[0], a[1])

    def b_callable(self, a, k):
        return self.is_callable(a[0])

    def b_noop(self, a, k):
        return None

    def b_typevar(self, a, k):
        return None

    def b_hasattr(self, a, k):
        obj, name = a
        if isinstance(obj, PyFunc):
            return name in obj.attrs or name in ("__name__", "__qualname__")
        if isinstance(obj, BoundMethod):
            return name in obj.func.attrs
        if isinstance(obj, Obj):
            if name in obj.fields:
                return True
            if obj.cls is not None and name in ("__qualname__", "__name__"):
                if self.repo.is_subclass(obj.cls, "Dataset"):
                    return self.fork(z3.Const(f"hasattr!{obj.term}.{name}", T.B))
            try:
                self.getattr(obj, name)
                return True
            except Unsupported:
                return False
        if isinstance(obj, Sym) and obj.kind == "val":
            return self.fork(z3.Function("hasattr!" + name, T.Val, T.B)(obj.term))
        raise Unsupported(f"hasattr on {obj!r}")

    def b_dir(self, a, k):
        """dir(obj): the duplicate-free list of attribute names of the object, its class and the bases (assumed contract dep.dir)"""
        t = self.as_ev(a[0])
        n = z3.Function("dir#n", T.Ev, T.I)(t)
        at = z3.Function("dir#at", T.Ev, T.I, T.Val)
        self.define(n >= 0)
        i = self.bound("i", T.I)
        self.define(z3.ForAll([i], T.isstr(at(t, i)), patterns=[at(t, i)]))
        return SeqV(n, lambda i: Sym("val", at(t, i)))

    def b_getattr(self, a, k):
        obj, name = a[0], a[1]
        if isinstance(name, Sym):
            # attribute of an object under a symbolic name (dataset classes walk dir(cls)): an uninterpreted member table
            t = self.as_ev(obj)
            self.event("getattr", t, self.as_val(name))
            return Sym("val", z3.Function("member", T.Ev, T.Val, T.Val)(t, self.as_val(name)))
        if not isinstance(name, str):
            raise Unsupported("getattr with symbolic name")
        if len(a) > 2:
            return self.getattr(obj, name, default=a[2])
        return self.getattr(obj, name)

    def b_setattr(self, a, k):
        obj, name, v = a
        if isinstance(name, Sym):
            self.event("setattr", self.as_ev(obj), self.as_val(name), self.as_val(v))
            return None
        if not isinstance(name, str):
            raise Unsupported("setattr with symbolic name")
        self.setattr(obj, name, v)

    def b_len(self, a, k):
        v = a[0]
        if isinstance(v, (PyTuple, PyList)):
            return len(v.items)
        if isinstance(v, PyDict):
            return len(v.items)
        if isinstance(v, (SeqV, MapV)):
            return Sym("int", v.n)
        raise Unsupported("len")

    def b_id(self, a, k):
        v = a[0]
        return Sym("int", z3.Function("py_id", T.Ev, T.I)(self.as_ev(v)))

    def b_repr(self, a, k):
        return Sym("val", self.fresh("repr", T.Val))

    def b_print(self, a, k):
        return None

    def b_sorted(self, a, k):
        v = a[0]
        if isinstance(v, KSetV):
            return SortedKeys(v)
        if isinstance(v, PyList):
            return v
        raise Unsupported("sorted")

    def _short_circuit(self, d, stop_on_true):
        """all(gen) / any(gen) over a generator expression: elements are produced one at a time and consumption STOPS at the first
        falsy (all) / truthy (any) element - later elements are never evaluated.  Executed as the equivalent loop with an early return."""
        from .symex import ReturnSig
        node = d.node
        test = node.elt if stop_on_true else ast.UnaryOp(ast.Not(), node.elt)
        body = [ast.If(test, [ast.Return(ast.Constant(stop_on_true))], [])]
        for g in reversed(node.generators):
            for cond in reversed(g.ifs):
                body = [ast.If(cond, body, [])]
            body = [ast.For(g.target, g.iter, body, [], None)]
        body.append(ast.Return(ast.Constant(not stop_on_true)))
        mod = ast.Module(body, [])
        ast.fix_missing_locations(mod)
        for n_ in ast.walk(mod):
            if not hasattr(n_, "lineno"):
                n_.lineno = n_.end_lineno = getattr(node, "lineno", 0)
                n_.col_offset = n_.end_col_offset = 0
        try:
            self.exec_block(mod.body, d.env)
        except ReturnSig as r:
            return r.value
        raise Unsupported("all/any desugaring fell through")

    def b_all(self, a, k):
        v = a[0]
        if isinstance(v, Delayed) and getattr(v, "node", None) is not None and v.forced is None:
            return self._short_circuit(v, stop_on_true=False)
        if isinstance(v, Delayed):
            v = self.force(v)
        if isinstance(v, (PyList, PyTuple)):
            for x in v.items:
                if not self.truth(x):
                    return False
            return True
        raise Unsupported("all")

    def b_any(self, a, k):
        v = a[0]
        if isinstance(v, Delayed) and getattr(v, "node", None) is not None and v.forced is None:
            return self._short_circuit(v, stop_on_true=True)
        if isinstance(v, Delayed):
            v = self.force(v)
        if isinstance(v, PyList):
            for x in v.items:
                if self.truth(x):
                    return True
            return False
        if isinstance(v, SeqV):
            i = self.bound("i", T.I)
            return Sym("bool", z3.Exists([i], z3.And(i >= 0, i < v.n, self.as_bool_term(v.elem(i)))))
        raise Unsupported("any")

    def b_zip(self, a, k):
        xs = [self.force(x) if isinstance(x, Delayed) else x for x in a]
        if all(isinstance(x, (PyTuple, PyList)) for x in xs):
            n = min(len(x.items) for x in xs)
            return PyList([PyTuple([x.items[i] for x in xs]) for i in range(n)])
        if len(xs) == 2 and all(isinstance(x, SeqV) for x in xs):
            return ZipV(xs)
        raise Unsupported("zip")

    def b_map(self, a, k):
        raise Unsupported("map()")

    def b_enumerate(self, a, k):
        v = a[0]
        if isinstance(v, Delayed):
            v = self.force(v)
        if isinstance(v, (PyTuple, PyList)):
            return PyList([PyTuple([i, x]) for i, x in enumerate(v.items)])
        if isinstance(v, ZipV):
            a, b = v.xs
            v = SeqV(z3.If(a.n <= b.n, a.n, b.n), lambda i: PyTuple([a.elem(i), b.elem(i)]))
        if isinstance(v, SeqV):
            return SeqV(v.n, lambda i: PyTuple([Sym("int", i), v.elem(i)]))
        raise Unsupported("enumerate")

    def b_class_str(self, a, k):
        v = a[0]
        if isinstance(v, str):
            return v
        return Sym("val", T.strform(self.as_val(v)))

    def b_class_set(self, a, k):
        if not a:
            return KSetV()
        v = a[0]
        if isinstance(v, Delayed):
            v = self.force(v)
        if isinstance(v, KSetV):
            return v.copy()
        if isinstance(v, Builtin) and False:
            pass
        if isinstance(v, PyList):
            return KSetV([("one", self.as_key(x)) for x in v.items])
        if isinstance(v, SeqV):
            i = self.bound("i", T.I)
            return KSetV([("big", [i], z3.And(i >= 0, i < v.n), [("one", self.as_key(v.elem(i)))])])
        if isinstance(v, MapKeys):
            return self._askset(v)
        raise Unsupported(f"set({v!r})")

    def b_class_tuple(self, a, k):
        if not a:
            return PyTuple([])
        v = a[0]
        if isinstance(v, Delayed):
            v = self.force(v)
        if isinstance(v, PyList):
            return PyTuple(v.items)
        if isinstance(v, PyTuple):
            return v
        if isinstance(v, SeqV):
            return SeqV(v.n, v.elem, "tuple")
        if isinstance(v, Sym) and v.kind == "val":
            return Sym("val", T.call_val(z3.Const("fn!tuple", T.Val), T.pack(T.seq1(v.term), T.NOKW)))
        raise Unsupported(f"tuple({v!r})")

    def b_class_list(self, a, k):
        if not a:
            return PyList([])
        v = a[0]
        if isinstance(v, Delayed):
            v = self.force(v)
        if isinstance(v, (PyList, PyTuple)):
            return PyList(v.items)
        if isinstance(v, SeqV):
            return SeqV(v.n, v.elem, "list")
        raise Unsupported(f"list({v!r})")

    def b_class_dict(self, a, k):
        if not a:
            return PyDict(k)
        v = a[0]
        if isinstance(v, PyDict):
            return PyDict(v.items)
        raise Unsupported("dict()")

    def b_class_type(self, a, k):
        v = a[0]
        if v is None:
            return ClassRef(builtin="NoneType")
        if isinstance(v, Obj):
            return ClassRef(v.cls) if v.cls is not None else ClassRef(builtin=v.builtin_cls)
        if isinstance(v, Sym) and v.kind == "ev" and v.cls is not None:
            return TypeOf(v)
        if isinstance(v, Sym):
            return TypeOf(v)
        raise Unsupported("type()")

    def b_class_TypeError(self, a, k):
        e = self.make_builtin_exc("TypeError", a)
        e.dep = False
        return e

    def b_class_ValueError(self, a, k):
        e = self.make_builtin_exc("ValueError", a)
        e.dep = False
        return e

    def b_class_KeyError(self, a, k):
        e = self.make_builtin_exc("KeyError", a)
        e.dep = False
        return e

    def b_class_AttributeError(self, a, k):
        e = self.make_builtin_exc("AttributeError", a)
        e.dep = False
        return e

    def b_class_NotImplementedError(self, a, k):
        e = self.make_builtin_exc("NotImplementedError", a)
        e.dep = False
        return e

    def b_class_IndexError(self, a, k):
        e = self.make_builtin_exc("IndexError", a)
        e.dep = False
        return e

    # ------------------------------------------------------------------ stdlib
    def b_copy_deepcopy(self, a, k):
        return a[0]

    def b_functools_partial(self, a, k):
        return Partial(a[0], a[1:], k)

    def b_functools_update_wrapper(self, a, k):
        self.event("update_wrapper", a[0], a[1])
        return a[0]

    def b_warnings_warn(self, a, k):
        self.event("warn")
        return None

    def b_threading_Lock(self, a, k):
        self.n += 1
        return LockV(f"lock{self.n}")

    def b_threading_current_thread(self, a, k):
        return self.config.get("thread", Sym("val", z3.Const("thread!cur", T.Val)))

    def b_logging_getLogger(self, a, k):
        return LoggerV(a[0])

    def b_re_compile(self, a, k):
        return RegexV(a[0])

    def b_json_dumps(self, a, k):
        v = a[0]
        if isinstance(v, SortedMap):
            return JsonText(v)
        raise Unsupported("json.dumps of a value other than the sorted list of pairs")

    def b_typing_cast(self, a, k):
        return a[1]

    def b_Request_handle(self, a, k):
        return a[0]

    # ------------------------------------------------------------------ confectioner (assumed contracts, OptTheory)
    def b_confectioner_templating_get_dotted_key(self, a, k):
        key, o = self.as_key(a[0]), self.as_opt(a[1])
        self._last_lookup_opt = o
        self.event("dep", "get_dotted_key", key, o)
        if self.fork(T.has(o, key)):
            return Sym("val", T.get(o, key))
        if self.fork(T.blocked(o, key)):
            self.do_raise(self.make_builtin_exc("TypeError", []))
        self.do_raise(self.make_builtin_exc("KeyError", [Sym("key", key)]))

    def b_confectioner_templating_dotted_key_exists(self, a, k):
        key, o = self.as_key(a[0]), self.as_opt(a[1])
        if self.fork(T.has(o, key)):
            return True
        if self.fork(T.blocked(o, key)):
            self.do_raise(self.make_builtin_exc("TypeError", []))
        return False

    def b_confectioner_templating_resolve(self, a, k):
        v = self.as_val(a[0])
        if len(a) > 1:
            o = self.as_opt(a[1])
        else:
            o = self.as_opt(a[0])
        self.event("dep", "resolve", v, o)
        if self.fork(T.resolve_ok(v, o)):
            return Sym("val", T.resolve_val(v, o))
        self.do_raise(ExcSym(T.resolve_exc(v, o), None))

    def b_confectioner_templating_set_dotted_key(self, a, k):
        key, v, target = a
        if isinstance(target, PyDict):
            self.check_mut(target)
        if isinstance(target, PyDict) and not target.items:
            target.items["__single__"] = (self.as_key(key), self.as_val(v))
            return None
        if isinstance(target, PyDict) and "__acc__" in target.items or isinstance(target, PyDict):
            prev = self.as_opt(target) if "__single__" not in target.items and "__acc__" not in target.items else self._optacc(target)
            target.items.clear()
            target.items["__acc__"] = T.mix(prev, T.single(self.as_key(key), self.as_val(v)))
            T.assume("OptTheory.set_dotted_key.acc", "set_dotted_key(k,v,d) on a dictionary d built only by set_dotted_key equals mix(d, single(k,v))")
            return None
        raise Unsupported("set_dotted_key into a shared dictionary")

    def _optacc(self, d):
        if "__single__" in d.items:
            k, v = d.items["__single__"]
            return T.single(k, v)
        return d.items["__acc__"]

    def as_opt(self, v):
        if isinstance(v, PyDict) and ("__single__" in v.items or "__acc__" in v.items):
            return self._optacc(v)
        return self._as_opt_core(v)

    def b_confectioner_templating_find_template_keys(self, a, k):
        v = self.as_val(a[0])
        return KSetV([("term", T.tkeys(v))])

    def b_confectioner_mix(self, a, k):
        x, y = self.as_opt(a[0]), self.as_opt(a[1])
        return Sym("opt", T.mix(x, y))

    # ------------------------------------------------------------------ methods of values
    def value_method(self, recv, meth, args, kwargs):
        if isinstance(recv, KSetV):
            if meth == "union":
                out = recv.copy()
                for x in args:
                    if isinstance(x, tuple) and x[0] == "*":
                        sv = x[1]
                        if isinstance(sv, Delayed):
                            sv = self.force(sv)
                        if isinstance(sv, SeqV):
                            i = self.bound("i", T.I)
                            e = sv.elem(i)
                            if not isinstance(e, KSetV):
                                raise Unsupported("union of non-sets")
                            out.parts.append(("big", [i], z3.And(i >= 0, i < sv.n), e.parts))
                        elif isinstance(sv, (PyList, PyTuple)):
                            for y in sv.items:
                                out.parts.extend(self._askset(y).parts)
                        else:
                            raise Unsupported("union(*x)")
                    else:
                        out.parts.extend(self._askset(x).parts)
                return out
            if meth == "update":
                for x in args:
                    recv.parts.extend(self._askset(x).parts)
                return None
            if meth == "keys":
                return recv
            if meth == "pop":
                raise Unsupported("set.pop")
        if isinstance(recv, PyDict):
            if meth == "items":
                return PyList([PyTuple([k, v]) for k, v in recv.items.items()])
            if meth == "keys":
                return PyList(list(recv.items.keys()))
            if meth == "values":
                return PyList(list(recv.items.values()))
            if meth == "copy":
                return PyDict(recv.items)
            if meth == "get":
                kk = args[0]
                if isinstance(kk, Sym):
                    if not recv.items:
                        return args[1] if len(args) > 1 else None
                    raise Unsupported("symbolic get on concrete dict")
                return recv.items.get(self.hashable(kk), args[1] if len(args) > 1 else None)
            if meth == "setdefault":
                self.check_mut(recv)
                return recv.items.setdefault(self.hashable(args[0]), args[1])
            if meth == "update":
                if isinstance(args[0], PyDict):
                    recv.items.update(args[0].items)
                    return None
        if isinstance(recv, MapV):
            if meth == "items":
                self._last_items_src = recv
                return SeqV(recv.n, lambda i: PyTuple([recv.key(i), recv.val(i)]))
            if meth == "keys":
                return MapKeys(recv)
            if meth == "values":
                return SeqV(recv.n, recv.val)
            if meth == "copy":
                return recv
            if meth == "get":
                if recv.has is None:
                    raise Unsupported("get on derived map")
                t = self.as_val(args[0])
                if self.fork(recv.has(t)):
                    return recv.at(t)
                return args[1] if len(args) > 1 else None
        if isinstance(recv, MapKeys):
            pass
        if isinstance(recv, PyList):
            if meth == "append":
                self.check_mut(recv)
                recv.items.append(args[0])
                return None
            if meth == "copy":
                return PyList(recv.items)
        if isinstance(recv, SeqV) and meth == "copy":
            return recv
        if isinstance(recv, Sym) and recv.kind == "opt":
            if meth == "keys":
                return KSetV([("term", T.topkeys(recv.term))])
            if meth == "get":
                return Sym("val", T.dget(recv.term, self.as_key(args[0])))
        if isinstance(recv, Sym) and recv.kind == "val" and meth == "values":
            # the elements of a JSON section (value known to be a Mapping on this path)
            t = recv.term
            return SeqV(T.vnchild(t), lambda i: Sym("val", T.vchild(t, i)))
        if isinstance(recv, Sym) and recv.kind == "val" and meth in ("items", "keys"):
            raise Unsupported(f".{meth}() of opaque value")
        if isinstance(recv, (str,)) or (isinstance(recv, Sym) and recv.kind in ("key", "val")):
            if meth == "startswith" and isinstance(recv, str):
                return recv.startswith(args[0])
            if meth == "startswith":
                p = args[0]
                return Sym("bool", z3.Function("startswith!" + str(p), T.Val, T.B)(self.as_val(recv)))
            if meth in ("strip", "splitlines", "join", "format"):
                return Sym("val", self.fresh("str", T.Val))
            if meth == "replace" and len(args) == 2 and not kwargs:
                # str.replace is total on strings (the receiver is a string on this path: A-py for str results, literals)
                r = self.as_val(recv)
                known = isinstance(recv, str) or (z3.is_app(r) and r.decl().name() in ("strform", "str_replace", "val_of_key"))
                if not known and not self.fork(T.isstr(r)):
                    raise Unsupported("replace on a value that may not be a string")
                return Sym("val", T.str_replace(r, self.as_val(args[0]), self.as_val(args[1])))
        if isinstance(recv, JsonText) and meth == "encode":
            sm = recv.sm
            e = sm.elem
            k = sm.bv
            # shape check: the element for key k is the singleton mapping {k: <value>}
            if isinstance(e, ArrDict):
                kt = T.val_of_key(k)
                okp = z3.simplify(e.present == z3.Store(z3.K(T.Val, z3.BoolVal(False)), kt, True))
                if z3.is_true(okp):
                    vt = z3.simplify(e.vals[kt])
                    self.event("fingerprint", sm.ks, k, vt)
                    fp = FingerprintV(sm.ks, k, vt)
                    fp.opt = getattr(self, "_last_lookup_opt", None)
                    return fp
            raise Unsupported("fingerprint shape: not a sorted list of {key: value} singletons")
        if isinstance(recv, LoggerV) and meth == "log":
            self.event("emit", recv.name, args[0], args[1])
            return None
        if isinstance(recv, RegexV) and meth == "match":
            return Sym("bool", T.isparam(self.as_key(args[0])))
        if isinstance(recv, HeapMap):
            return self.heapmap_method(recv, meth, args, kwargs)
        if isinstance(recv, HeapListRef):
            return self.heaplist_method(recv, meth, args)
        if isinstance(recv, ArrDict) and meth == "get":
            kt = self.as_val(args[0])
            if self.fork(recv.present[kt]):
                return Sym("val", recv.vals[kt])
            return args[1] if len(args) > 1 else None
        if isinstance(recv, Partial) and meth in ("func", "args", "keywords"):
            pass
        raise Unsupported(f"method {meth} of {recv!r}")

    def _askset(self, x):
        if isinstance(x, Delayed):
            x = self.force(x)
        if isinstance(x, KSetV):
            return x
        if isinstance(x, MapKeys):
            m = x.m
            i = self.bound("i", T.I)
            return KSetV([("big", [i], z3.And(i >= 0, i < m.n), [("one", self.as_key(m.key(i)))])])
        if isinstance(x, PyList):
            return KSetV([("one", self.as_key(y)) for y in x.items])
        raise Unsupported(f"as key set: {x!r}")

    def kset_minus(self, a, b):
        bs = self._askset(b)
        return KSetV([("minus", a.parts, lambda q: bs.mem(q))])

    # ------------------------------------------------------------------ heap maps (module-level dicts)
    def heapmap_arr(self, hm):
        return self.heap[hm.name]

    def heapmap_key(self, hm, k):
        if hm.keykind == "val":
            return self.as_val(k)
        if hm.keykind == "ev":
            return self.as_ev(k)
        if hm.keykind == "int":
            return self.as_int(k)
        raise Unsupported("heapmap key kind")

    def heapmap_wrap(self, hm, t):
        return hm.wrap(self, t) if getattr(hm, "wrap", None) else Sym("val", t)

    def heapmap_unwrap(self, hm, v):
        return hm.unwrap(self, v) if getattr(hm, "unwrap", None) else self.as_val(v)

    def heapmap_has(self, hm, k):
        present = self.heap[hm.name][0]
        kt = self.heapmap_key(hm, k)
        self.event("heap-probe", hm.name, kt)
        return present[kt]

    def heapmap_get(self, hm, k):
        st = self.heap[hm.name]
        present = st[0]
        kt = self.heapmap_key(hm, k)
        self.event("heap-read", hm.name, kt)
        if self.fork(present[kt]):
            if hm.valkind == "list":
                return HeapListRef(hm, kt)
            return self.heapmap_wrap(hm, st[1][kt])
        self.do_raise(self.make_builtin_exc("KeyError", []))

    def heapmap_set(self, hm, k, v):
        if hm.valkind == "list":
            raise Unsupported("store of a list into a heap list map")
        present, vals = self.heap[hm.name]
        kt = self.heapmap_key(hm, k)
        self.event("heap-write", hm.name, kt)
        self.heap[hm.name] = (z3.Store(present, kt, True), z3.Store(vals, kt, self.heapmap_unwrap(hm, v)))

    def heaplist_method(self, ref, meth, args):
        present, ln, at = self.heap[ref.hm.name]
        kt = ref.key
        if meth == "append":
            self.event("heap-write", ref.hm.name, kt)
            n = ln[kt]
            self.heap[ref.hm.name] = (present, z3.Store(ln, kt, n + 1), z3.Store(at, kt, z3.Store(at[kt], n, self.as_val(args[0]))))
            return None
        if meth == "pop" and not args:
            self.event("heap-write", ref.hm.name, kt)
            n = ln[kt]
            if self.fork(n > 0):
                self.heap[ref.hm.name] = (present, z3.Store(ln, kt, n - 1), at)
                return Sym("val", at[kt][n - 1])
            self.do_raise(self.make_builtin_exc("IndexError", []))
        raise Unsupported(f"heap list method {meth}")

    def heapmap_method(self, hm, meth, args, kwargs):
        if hm.valkind == "list":
            present, ln, at = self.heap[hm.name]
            if meth == "setdefault" and isinstance(args[1], PyList) and not args[1].items:
                kt = self.heapmap_key(hm, args[0])
                self.event("heap-read", hm.name, kt)
                if not self.fork(present[kt]):
                    self.event("heap-write", hm.name, kt)
                    self.heap[hm.name] = (z3.Store(present, kt, True), z3.Store(ln, kt, 0), at)
                return HeapListRef(hm, kt)
            raise Unsupported(f"heap list map method {meth}")
        present, vals = self.heap[hm.name]
        if meth == "pop" and len(args) == 2:
            kt = self.heapmap_key(hm, args[0])
            self.event("heap-write", hm.name, kt)
            if self.fork(present[kt]):
                self.heap[hm.name] = (z3.Store(present, kt, False), vals)
                return self.heapmap_wrap(hm, vals[kt])
            return args[1]
        if meth == "get":
            kt = self.heapmap_key(hm, args[0])
            self.event("heap-read", hm.name, kt)
            if self.fork(present[kt]):
                return self.heapmap_wrap(hm, vals[kt])
            return args[1] if len(args) > 1 else None
        if meth == "setdefault":
            kt = self.heapmap_key(hm, args[0])
            self.event("heap-read", hm.name, kt)
            if self.fork(present[kt]):
                return self.heapmap_wrap(hm, vals[kt])
            self.heapmap_set(hm, args[0], args[1])
            return args[1]
        raise Unsupported(f"heap map method {meth}")

    def heap_field_store(self, obj, name, v):
        arr = self.heap[("fld", name)]
        spec = self.config["heap_fields"][(self.class_of(obj).name, name)]
        self.event("field-write", name, self.as_ev(obj))
        self.heap[("fld", name)] = z3.Store(arr, self.as_ev(obj), spec["unwrap"](self, v))

    def dict_merge(self, parts, tail):
        hook = self.config.get("dict_merge")
        if hook is None:
            raise Unsupported("dict display with symbolic ** parts")
        return hook(self, parts, tail)


class SortedKeys:
    def __init__(self, ks):
        self.ks = ks


class ZipV:
    def __init__(self, xs):
        self.xs = xs


class MapKeys:
    def __init__(self, m):
        self.m = m


class TypeOf:
    def __init__(self, v):
        self.v = v


class LoggerV:
    def __init__(self, name):
        self.name = name


class RegexV:
    def __init__(self, pat):
        self.pat = pat


class SortedMap:
    """[elem(k) for k in sorted(ks)]"""

    def __init__(self, ks, bv, elem):
        self.ks, self.bv, self.elem = ks, bv, elem


class JsonText:
    def __init__(self, sm):
        self.sm = sm


class FingerprintV:
    """json.dumps([{k: value(k)} for k in sorted(ks)]).encode()"""

    def __init__(self, ks, k, value):
        self.ks, self.k, self.value = ks, k, value
