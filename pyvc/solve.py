"""Discharging verification conditions: one solver instance per obligation, process pool,
z3 5.1 (python API, SMT-LIB text round trip) with /usr/bin/z3 4.8.12 as second opinion."""
from __future__ import annotations

import os
import subprocess
import tempfile
import time
from concurrent.futures import ProcessPoolExecutor
from dataclasses import dataclass, field

import z3

TIMEOUT_MS = int(os.environ.get("PYVC_TIMEOUT_MS", "10000"))
WORKERS = int(os.environ.get("PYVC_WORKERS", "16"))


@dataclass
class VC:
    name: str
    assumptions: list
    goal: object
    meta: dict = field(default_factory=dict)
    expect: str = "unsat"      # 'unsat' = must be proved; 'not-unsat' = sanity obligation that must NOT be provable

    def smt2(self):
        s = z3.Solver()
        for a in self.assumptions:
            s.add(a)
        s.add(z3.Not(self.goal))
        return s.to_smt2()


@dataclass
class Result:
    name: str
    status: str          # unsat | sat | unknown | error
    seconds: float
    backend: str
    expect: str = "unsat"
    meta: dict = field(default_factory=dict)
    detail: str = ""

    @property
    def discharged(self):
        return self.status == "unsat" if self.expect == "unsat" else self.status in ("sat", "unknown")


def _solve_text(args):
    name, text, timeout_ms, seed = args
    t0 = time.time()
    try:
        ctx = z3.Context()
        s = z3.Solver(ctx=ctx)
        s.set("timeout", timeout_ms)
        if seed:
            s.set("random_seed", seed)
        s.from_string(text)
        # z3's own timeout is not honoured in every phase (a query once ran for 9 CPU-minutes under a 20 s budget): a watchdog interrupts the context
        import threading
        dog = threading.Timer(timeout_ms / 1000.0 * 1.1 + 2.0, ctx.interrupt)
        dog.daemon = True
        dog.start()
        try:
            r = s.check()
        finally:
            dog.cancel()
        status = str(r)
        detail = ""
        if status == "unknown":
            detail = s.reason_unknown()
        return name, status, time.time() - t0, "z3-5.1(py)", detail
    except Exception as e:  # pragma: no cover
        return name, "error", time.time() - t0, "z3-5.1(py)", f"{type(e).__name__}: {e}"


def _solve_cli(args):
    name, text, timeout_ms, _ = args
    t0 = time.time()
    with tempfile.NamedTemporaryFile("w", suffix=".smt2", delete=False) as f:
        f.write(text)
        path = f.name
    try:
        out = subprocess.run(["/usr/bin/z3", f"-T:{max(1, timeout_ms // 1000)}", path], capture_output=True, text=True,
                             timeout=timeout_ms / 1000 + 5)
        first = (out.stdout.strip().splitlines() or ["error"])[0]
        status = first if first in ("sat", "unsat", "unknown") else ("unknown" if "timeout" in first else "error")
        return name, status, time.time() - t0, "z3-4.8.12(cli)", out.stdout[:200] if status == "error" else ""
    except subprocess.TimeoutExpired:
        return name, "unknown", time.time() - t0, "z3-4.8.12(cli)", "timeout"
    finally:
        os.unlink(path)


def robust_map(fn, jobs, workers, attempts=3):
    """ordered results of fn over jobs in worker processes; a worker that dies (z3 has been seen to segfault sporadically) only costs a retry of the jobs that
    had not finished - never the whole check.  A job that kills its worker `attempts` times raises."""
    from concurrent.futures.process import BrokenProcessPool
    results = {}
    todo = list(range(len(jobs)))
    last = None
    for attempt in range(attempts):
        if not todo:
            break
        # after a crash, run what is left with fewer processes (one job per process on the last attempt)
        w = max(1, min(workers, len(todo)) if attempt == 0 else min(4, len(todo)))
        ex = ProcessPoolExecutor(max_workers=w)
        futs = {i: ex.submit(fn, jobs[i]) for i in todo}
        nxt = []
        for i, f in futs.items():
            try:
                results[i] = f.result()
            except BrokenProcessPool as e:
                last = e
                nxt.append(i)
        ex.shutdown(wait=False, cancel_futures=True)
        todo = nxt
    if todo:
        raise last
    return [results[i] for i in range(len(jobs))]


class _Robust:
    def __init__(self, workers):
        self.workers = workers

    def map(self, fn, items, chunksize=1):
        return robust_map(fn, list(items), self.workers)


_POOL = None


def pool():
    global _POOL
    if _POOL is None:
        _POOL = _Robust(WORKERS)
    return _POOL


LOCAL = False   # inside a worker process: solve sequentially in-process


class _Serial:
    def map(self, fn, items, chunksize=1):
        return [fn(x) for x in items]


def discharge(vcs, timeout_ms=None, second_opinion=True, seeds=()):
    """returns list[Result] in the order of vcs"""
    timeout_ms = timeout_ms or TIMEOUT_MS
    if LOCAL:
        global pool
        pool = lambda: _Serial()  # noqa
    texts = [(vc.name, vc.smt2(), timeout_ms if vc.expect == "unsat" else min(3000, timeout_ms), 0) for vc in vcs]
    results = {}
    for name, status, secs, backend, detail in pool().map(_solve_text, texts, chunksize=1):
        results[name] = Result(name, status, secs, backend, detail=detail)
    # second opinion for obligations left open
    if second_opinion:
        retry = [t for t, vc in zip(texts, vcs) if vc.expect == "unsat" and results[t[0]].status != "unsat"]
        for name, status, secs, backend, detail in pool().map(_solve_cli, retry, chunksize=1):
            if status == "unsat":
                results[name] = Result(name, status, secs + results[name].seconds, backend, detail=detail)
    if seeds:
        for seed in seeds:
            again = [(n, t, ms, seed) for (n, t, ms, _), vc in zip(texts, vcs) if vc.expect == "unsat"]
            for name, status, secs, backend, detail in pool().map(_solve_text, again, chunksize=1):
                if status != results[name].status and results[name].status == "unsat":
                    results[name].detail += f" UNSTABLE(seed {seed}: {status})"
                    results[name].status = "unknown"
    out = []
    for vc in vcs:
        r = results[vc.name]
        r.expect = vc.expect
        r.meta = vc.meta
        out.append(r)
    return out


def discharge_split(vcs, timeout_ms=None, first_ms=3000, **kw):
    """phase 1: every obligation as stated (short budget); phase 2: an obligation whose goal is a conjunction and that was
    not discharged is split into one obligation per conjunct (the conjunction is discharged iff every conjunct is)."""
    timeout_ms = timeout_ms or TIMEOUT_MS
    res = discharge(vcs, timeout_ms=first_ms, second_opinion=False)
    out = []
    todo = []
    for vc, r in zip(vcs, res):
        if r.discharged or vc.expect != "unsat":
            out.append(r)
            continue
        g = vc.goal
        parts = list(g.children()) if z3.is_and(g) and g.num_args() > 1 else [g]
        subs = [VC(f"{vc.name}/c{i}", vc.assumptions, c, vc.meta, vc.expect) for i, c in enumerate(parts)]
        todo.append((vc, r, subs))
        out.append(None)
    flat = [s for _, _, subs in todo for s in subs]
    fres = discharge(flat, timeout_ms=timeout_ms, **kw) if flat else []
    # phase 3: what is still `unknown` (never `sat`) gets one more, longer attempt - verdicts must not flip because the machine is busy
    slow = [(i, s_) for i, (s_, r_) in enumerate(zip(flat, fres)) if r_.status == "unknown" and s_.expect == "unsat"]
    if slow and len(slow) <= 4:
        again = discharge([s_ for _, s_ in slow], timeout_ms=timeout_ms * 4, second_opinion=False)
        for (i, _), r2 in zip(slow, again):
            if r2.status == "unsat":
                r2.seconds += fres[i].seconds
                r2.backend += " (retry, 4x budget)"
                fres[i] = r2
    it = iter(fres)
    merged = {}
    for vc, r, subs in todo:
        rs = [next(it) for _ in subs]
        secs = r.seconds + sum(x.seconds for x in rs)
        bad = [x for x in rs if not x.discharged]
        if not bad:
            merged[vc.name] = Result(vc.name, "unsat", secs, rs[0].backend + f" split{len(rs)}", vc.expect, vc.meta)
        else:
            st = "sat" if any(x.status == "sat" for x in bad) else "unknown"
            merged[vc.name] = Result(vc.name, st, secs, rs[0].backend, vc.expect, vc.meta,
                                     detail="; ".join(f"{x.name.split('/')[-1]}:{x.status}" for x in bad))
    return [x if x is not None else merged[vc.name] for x, vc in zip(out, vcs)]
