"""Symbolic executor over the Python AST of /repo's real source (part 1: core machinery).

Direct-style interpreter driven by a replay oracle: `fork(cond)` consults the oracle, the
driver `explore()` enumerates all choice sequences.  Python exceptions of the interpreted
program are PyRaise; constructs outside the subset raise Unsupported.
"""
from __future__ import annotations

import ast

import z3

from . import theory as T
from .values import *  # noqa


class PyRaise(Exception):
    def __init__(self, exc):
        self.exc = exc


class ReturnSig(Exception):
    def __init__(self, value):
        self.value = value


class BreakSig(Exception):
    pass


class ContinueSig(Exception):
    pass


class Oracle:
    def __init__(self, prefix=()):
        self.prefix = list(prefix)
        self.taken = []

    def choose(self, n):
        pos = len(self.taken)
        c = self.prefix[pos] if pos < len(self.prefix) else 0
        self.taken.append((c, n))
        return c

    def next_prefix(self):
        t = list(self.taken)
        while t and t[-1][0] + 1 >= t[-1][1]:
            t.pop()
        if not t:
            return None
        return [c for c, _ in t[:-1]] + [t[-1][0] + 1]


class Path:
    def __init__(self, ex, kind, value):
        self.pc = list(ex.pc)
        self.defs = list(ex.defs)
        self.trace = list(ex.trace)
        self.heap = dict(ex.heap)
        self.kind = kind      # 'ok' | 'exc' | 'unsupported'
        self.value = value
        self.primordial = ex.primordial
        self.tags = list(ex.tags)

    def __repr__(self):
        return f"<path {self.kind} {self.value!r} pc={self.pc}>"


class _TimedOut:
    """pseudo-path: the function is out of reach within the budget (UNDECIDED, never a violation)"""
    kind = "unsupported"
    pc = defs = trace = tags = ()
    heap = {}
    primordial = None

    def __init__(self, msg):
        self.value = msg


class Env:
    def __init__(self, module, parent=None, vars=None):
        self.module = module
        self.parent = parent
        self.vars = vars if vars is not None else {}

    def lookup(self, name):
        e = self
        while e is not None:
            if name in e.vars:
                return e.vars[name]
            e = e.parent
        raise KeyError(name)

    def has(self, name):
        e = self
        while e is not None:
            if name in e.vars:
                return True
            e = e.parent
        return False


LITKEYS: dict = {}


def litkey(s: str):
    if s not in LITKEYS:
        LITKEYS[s] = z3.Const("key!" + s, T.Key)
    return LITKEYS[s]


def litkey_facts(used=None):
    ks = list(LITKEYS.items()) if used is None else [(s, LITKEYS[s]) for s in used]
    out = []
    if len(ks) > 1:
        out.append(z3.Distinct(*[k for _, k in ks]))
    for s, k in ks:
        out.append(T.top(k) == ("." not in s))
        out.append(T.isparam(k) == bool(__import__("re").match(r"^:[a-zA-Z_][a-zA-Z0-9_]*:$", s)))
        for s2, k2 in ks:
            out.append(T.anc(k, k2) == (s2.startswith(s + ".")))
    return out


def explore(repo, run, tag="r", config=None, limit=4000):
    """enumerate all paths of `run(ex)`; returns list[Path]"""
    import time as _t
    paths = []
    prefix = []
    count = 0
    t0 = _t.time()
    budget = float(__import__("os").environ.get("PYVC_EXPLORE_BUDGET_S", "240"))
    while prefix is not None:
        if _t.time() - t0 > budget:
            paths.append(_TimedOut(f"exploration time budget ({budget:.0f}s) exhausted"))
            break
        orc = Oracle(prefix)
        from .interp import Exec
        ex = Exec(repo, orc, tag, config or {})
        try:
            v = run(ex)
            paths.append(Path(ex, "ok", v))
        except PyRaise as r:
            paths.append(Path(ex, "exc", r.exc))
        except Unsupported as u:
            paths.append(Path(ex, "unsupported", str(u)))
        except (z3.Z3Exception, RecursionError, AttributeError, TypeError, KeyError, IndexError, ValueError, AssertionError) as err:
            # an internal error of the executor on code it was not written for: the function is out of reach (UNDECIDED), never a verdict
            if __import__("os").environ.get("PYVC_DEBUG"):
                raise
            paths.append(Path(ex, "unsupported", f"executor error {type(err).__name__}: {str(err)[:120]}"))
        prefix = orc.next_prefix()
        count += 1
        if count > limit:
            raise Unsupported("path explosion")
    return paths
