"""Sorts, uninterpreted spec functions, the assumed option-dictionary theory (OptTheory)
and the Evaluatable interface laws (DESIGN.md sections 3 and 4) as z3 terms.

Everything in this file is *specification*: nothing here models a function of /repo.
Assumed clauses (dependencies) are registered in ASSUMPTIONS so that every evidence file
lists them mechanically.
"""
from __future__ import annotations

import z3

# --------------------------------------------------------------------------- sorts
Ev = z3.DeclareSort("Ev")      # identity of an evaluatable / effect / cache / any heap object
Opt = z3.DeclareSort("Opt")    # an options dictionary (finite JSON tree addressed by dotted keys)
Key = z3.DeclareSort("Key")    # a dotted key string
Val = z3.DeclareSort("Val")    # a python value
Exc = z3.DeclareSort("Exc")    # an exception value
KSet = z3.SetSort(Key)
B = z3.BoolSort()
I = z3.IntSort()

ASSUMPTIONS: dict[str, str] = {}


def assume(name: str, text: str) -> None:
    ASSUMPTIONS[name] = text


def F(name, *sig):
    return z3.Function(name, *sig)


# --------------------------------------------------------------------------- values
NONE = z3.Const("py_None", Val)
TRUE = z3.Const("py_True", Val)
FALSE = z3.Const("py_False", Val)
MISSING = z3.Const("py_MISSING", Val)
truthy = F("truthy", Val, B)
isdict = F("isdict", Val, B)
islist = F("islist", Val, B)
isstr = F("isstr", Val, B)
iscallable = F("iscallable", Val, B)
iscontainer = F("iscontainer", Val, B)
isev = F("isev", Val, B)                 # the value is an Evaluatable object
ev_of = F("ev_of", Val, Ev)              # ... namely this one
val_of_ev = F("val_of_ev", Ev, Val)
val_of_key = F("val_of_key", Key, Val)   # a key string seen as a value
key_of_val = F("key_of_val", Val, Key)
val_of_opt = F("val_of_opt", Opt, Val)
opt_of_val = F("opt_of_val", Val, Opt)
val_of_kset = F("val_of_kset", KSet, Val)
val_of_int = F("val_of_int", I, Val)
val_of_bool = F("val_of_bool", B, Val)
strform = F("strform", Val, Val)         # str(v)
str_replace = F("str_replace", Val, Val, Val, Val)   # s.replace(a, b) on strings (total)
contains = F("py_contains", Val, Val, B)  # value in container
pyeq = F("py_eq", Val, Val, B)           # ==  (uninterpreted, reflexive)

# user callables: call(f, argpack) -> outcome
call_ok = F("call_ok", Val, Val, B)
call_val = F("call_val", Val, Val, Val)
call_exc = F("call_exc", Val, Val, Exc)
# argument packs: positional sequence + keyword map, both as values
pack = F("pack", Val, Val, Val)
NOARGS = z3.Const("noargs", Val)
NOKW = z3.Const("nokwargs", Val)
seq1 = F("seq1", Val, Val)
seq2 = F("seq2", Val, Val, Val)
mkseq = F("mkseq", I, z3.ArraySort(I, Val), Val)      # sequence value (tuple/list content)
mkmap = F("mkmap", I, z3.ArraySort(I, Val), z3.ArraySort(I, Val), Val)  # ordered mapping
partial_of = F("partial_of", Val, Val, Val)            # functools.partial(f, *args, **kw)
DFLT = z3.Const("dflt_val", Val)

# --------------------------------------------------------------------------- options
has = F("has", Opt, Key, B)
get = F("get", Opt, Key, Val)
anc = F("anc", Key, Key, B)          # strict dotted-prefix order
blocked = F("blocked", Opt, Key, B)  # a proper prefix of k holds a scalar (get_dotted_key -> TypeError)
top = F("top", Key, B)               # key has no dot
mix = F("mix", Opt, Opt, Opt)
EMPTY = z3.Const("EMPTY", Opt)
mixv = F("mixv", Val, Val, Val)     # value-level merge of two dict nodes
single = F("single", Key, Val, Opt)  # set_dotted_key(k, v, {})
sub = F("sub", Opt, Opt, B)          # "below": presence-monotone order of law L2 (prunings are instances)
shadow = F("shadow", Opt, Key, B)
noshadow = F("noshadow", Opt, Opt, B)   # no kind conflict: wherever both hold a key both hold a section or both hold a value
resolve_ok = F("resolve_ok", Val, Opt, B)
resolve_val = F("resolve_val", Val, Opt, Val)
resolve_exc = F("resolve_exc", Val, Opt, Exc)
RD = F("RD", Val, Opt, KSet)         # transitive read set of resolve(v, o)
tkeys = F("tkeys", Val, KSet)        # find_template_keys(s)
isparam = F("isparam", Key, B)       # TEMPLATE_PARAM.match(key)
pkey = F("pkey", Key, Key)           # f":{name}:"
pname = F("pname", Key, Key)         # key[1:-1]
dot = F("dot", Key, Key, Key)        # f"{parent}.{key}"
restrict = F("restrict", Opt, KSet, Opt)  # ghost
fpF = F("fpF", Opt, KSet, Val)       # json.dumps(sorted pairs).encode()  (ghost view)
haskey_top = F("haskey_top", Opt, Key, B)   # `k in o` / o.keys() (top-level)
dget = F("dget", Opt, Key, Val)
topkeys = F("topkeys", Opt, KSet)     # set(o.keys())      # o.get(k) (top-level lookup; None when absent)

# structure of JSON container values and the contract of option._templated_keys (keys referenced by templates inside a value)
vnchild = F("vnchild", Val, I)
vchild = F("vchild", Val, I, Val)
TKok = F("TKok", Val, Opt, B)
TKset = F("TKset", Val, Opt, KSet)
TKexc = F("TKexc", Val, Opt, Exc)
TXset = F("TXset", Val, Opt, KSet)      # explain variant (never raises)
str_bad = F("str_bad", Val, Opt, Key)       # skolem: a referenced key that breaks resolve of a string
rd_via = F("rd_via", Val, Opt, Key, Key)    # skolem: the referenced key through which k is read
cont_bad = F("cont_bad", Val, Opt, I)       # skolem: an element that breaks resolve of a container
rd_idx = F("rd_idx", Val, Opt, Key, I)      # skolem: the element that reads k

# --------------------------------------------------------------------------- interface spec functions
EVok = F("EVok", Ev, Opt, B)
EVval = F("EVval", Ev, Opt, Val)
EVexc = F("EVexc", Ev, Opt, Exc)
VLok = F("VLok", Ev, Opt, B)
VLexc = F("VLexc", Ev, Opt, Exc)
KSok = F("KSok", Ev, Opt, B)
KSset = F("KSset", Ev, Opt, KSet)
KSexc = F("KSexc", Ev, Opt, Exc)
EXok = F("EXok", Ev, Opt, B)
EXset = F("EXset", Ev, Opt, KSet)
EXexc = F("EXexc", Ev, Opt, Exc)
# effects (Transformation + Validatable + Explainable)
TFok = F("TFok", Ev, Val, Opt, B)
TFexc = F("TFexc", Ev, Val, Opt, Exc)

SPEC = {
    "evaluate": (EVok, EVval, EVexc),
    "validate": (VLok, None, VLexc),
    "keys": (KSok, KSset, KSexc),
    "explain": (EXok, EXset, EXexc),
}

# --------------------------------------------------------------------------- exceptions
EXC_CLASSES = {
    # name: parent
    "BaseException": None,
    "Exception": "BaseException",
    "KeyError": "LookupError",
    "IndexError": "LookupError",
    "LookupError": "Exception",
    "ValueError": "Exception",
    "TypeError": "Exception",
    "AttributeError": "Exception",
    "NotImplementedError": "Exception",
    "EvaluationError": "Exception",
    "KeyNotFoundError": "EvaluationError",
    "InsufficientInformationError": "EvaluationError",
    "SwitchError": "EvaluationError",
    "CaseWhenError": "EvaluationError",
    "CacheFailure": "Exception",
    "CacheGetFailure": "CacheFailure",
    "CacheSetFailure": "CacheFailure",
    "CacheExistsFailure": "CacheFailure",
    "RecursionError": "Exception",
}
is_cls = {n: F("is_" + n, Exc, B) for n in EXC_CLASSES}
exc_src = F("exc_src", Exc, Ev)      # .source (labrea errors)
exc_key = F("exc_key", Exc, Key)     # .key (KeyNotFoundError) / args[0] (KeyError)
exc_cause = F("exc_cause", Exc, Exc)
has_cause = F("has_cause", Exc, B)
origin = F("origin", Exc, Exc)       # end of the __cause__ chain
missing = F("missing", Exc, B)       # origin is a KeyNotFoundError
mkey = F("mkey", Exc, Key)           # ... for this key
mk_exc = {}                          # filled lazily: constructor UFs per class


def exc_ancestors(name):
    out = []
    while name is not None:
        out.append(name)
        name = EXC_CLASSES[name]
    return out


def exc_hierarchy_axioms():
    x = z3.Const("x!e", Exc)
    ax = []
    for n, p in EXC_CLASSES.items():
        if p is not None:
            ax.append(z3.ForAll([x], z3.Implies(is_cls[n](x), is_cls[p](x)), patterns=[is_cls[n](x)]))
    # disjointness of unrelated *known* leaves is only asserted where a proof needs it:
    # labrea errors are never builtin lookup/type/value errors and vice versa
    for a in ("EvaluationError", "CacheFailure"):
        for b in ("LookupError", "TypeError", "ValueError", "AttributeError", "NotImplementedError"):
            ax.append(z3.ForAll([x], z3.Not(z3.And(is_cls[a](x), is_cls[b](x))), patterns=[is_cls[a](x), is_cls[b](x)]))
    ax.append(z3.ForAll([x], z3.Not(z3.And(is_cls["EvaluationError"](x), is_cls["CacheFailure"](x))),
                        patterns=[is_cls["EvaluationError"](x), is_cls["CacheFailure"](x)]))
    # origin / missing / mkey are maintained as ground facts at every raise site (no quantified chain axioms: matching loops)
    return ax


# --------------------------------------------------------------------------- helpers
agreeP = F("agreeP", Opt, Opt, KSet, B)      # every key of S present in both with equal subtree value
subsetP = F("subsetP", KSet, KSet, B)
agree_w = F("agree_w", Opt, Opt, KSet, Key)  # skolem witness of not-agree


def agree(o, o2, S):
    return agreeP(o, o2, S)


def agree_axioms():
    o, o2 = z3.Consts("o! o2!", Opt)
    S, U, W = z3.Consts("S! U! W!", KSet)
    k = z3.Const("k!", Key)
    w = agree_w(o, o2, S)
    return [
        z3.ForAll([o, o2, S, k], z3.Implies(z3.And(agreeP(o, o2, S), z3.IsMember(k, S)),
                                            z3.And(has(o, k), has(o2, k), get(o2, k) == get(o, k))),
                  patterns=[z3.MultiPattern(agreeP(o, o2, S), z3.IsMember(k, S))]),
        z3.ForAll([o, o2, S, U], z3.Implies(z3.And(agreeP(o, o2, S), subsetP(U, S)), agreeP(o, o2, U)),
                  patterns=[z3.MultiPattern(agreeP(o, o2, S), subsetP(U, S))]),
        z3.ForAll([o, o2, S], z3.Implies(z3.Implies(z3.IsMember(w, S), z3.And(has(o, w), has(o2, w), get(o2, w) == get(o, w))),
                                         agreeP(o, o2, S)),
                  patterns=[agreeP(o, o2, S)]),
        z3.ForAll([S], subsetP(S, S), patterns=[subsetP(S, S)]),
        z3.ForAll([S, U, k], z3.Implies(z3.And(subsetP(U, S), z3.IsMember(k, U)), z3.IsMember(k, S)),
                  patterns=[z3.MultiPattern(subsetP(U, S), z3.IsMember(k, U))]),
        z3.ForAll([S, U, W], z3.Implies(z3.And(subsetP(U, S), subsetP(S, W)), subsetP(U, W)),
                  patterns=[z3.MultiPattern(subsetP(U, S), subsetP(S, W))]),
        z3.ForAll([o, o2], agreeP(o, o2, z3.EmptySet(Key)), patterns=[agreeP(o, o2, z3.EmptySet(Key))]),
    ]


def subset(S, T):
    return z3.IsSubset(S, T)


def val_axioms():
    v = z3.Const("v!", Val)
    w = z3.Const("w!", Val)
    k = z3.Const("k!", Key)
    e = z3.Const("e!", Ev)
    o = z3.Const("o!", Opt)
    ax = [
        z3.ForAll([k], key_of_val(val_of_key(k)) == k, patterns=[val_of_key(k)]),
        z3.ForAll([k], isstr(val_of_key(k)), patterns=[val_of_key(k)]),
        z3.ForAll([e], z3.And(isev(val_of_ev(e)), ev_of(val_of_ev(e)) == e), patterns=[val_of_ev(e)]),
        z3.ForAll([v], z3.Implies(isev(v), val_of_ev(ev_of(v)) == v), patterns=[ev_of(v)]),
        z3.ForAll([o], opt_of_val(val_of_opt(o)) == o, patterns=[val_of_opt(o)]),
        z3.ForAll([o], z3.And(isdict(val_of_opt(o)), z3.Not(isev(val_of_opt(o))), z3.Not(isstr(val_of_opt(o)))),
                  patterns=[val_of_opt(o)]),
        z3.Not(truthy(NONE)), z3.Not(truthy(FALSE)), truthy(TRUE),
        z3.Distinct(NONE, TRUE, FALSE, MISSING),
        z3.Not(isev(NONE)), z3.Not(isev(MISSING)), z3.Not(isev(TRUE)), z3.Not(isev(FALSE)),
        z3.Not(isstr(NONE)), z3.Not(isstr(MISSING)), z3.Not(isstr(TRUE)), z3.Not(isstr(FALSE)),
        z3.Not(isdict(NONE)), z3.Not(isdict(MISSING)),
        z3.ForAll([v], z3.Not(z3.And(isstr(v), isdict(v))), patterns=[isstr(v), isdict(v)]),
        z3.ForAll([v], z3.Not(z3.And(isstr(v), islist(v))), patterns=[isstr(v), islist(v)]),
        z3.ForAll([v], z3.Not(z3.And(isdict(v), islist(v))), patterns=[isdict(v), islist(v)]),
        z3.ForAll([v], z3.Not(z3.And(isstr(v), isev(v))), patterns=[isstr(v), isev(v)]),
        z3.ForAll([v], pyeq(v, v), patterns=[pyeq(v, v)]),
        z3.ForAll([v], isstr(strform(v)), patterns=[strform(v)]),
    ]
    return ax


# --------------------------------------------------------------------------- OptTheory
assume("OptTheory.tree", "option dictionaries are finite JSON trees: a present key's proper dotted prefixes are present "
       "and hold a dict or list; anc is a strict order (confectioner.get_dotted_key addressing)")
assume("OptTheory.get_dotted_key", "get_dotted_key(k,o) returns get(o,k) if has(o,k); otherwise raises KeyError, unless a proper "
       "prefix of k holds a scalar (blocked) in which case it raises TypeError; dotted_key_exists likewise")
assume("OptTheory.mix", "confectioner.mix(a,b) is pure; has(mix(a,b),k) <=> has(b,k) or (has(a,k) and not shadow(b,k)); "
       "get(mix(a,b),k) = get(b,k) when present in b and not both dicts; = get(a,k) when absent from b and unshadowed")
assume("OptTheory.mix.sub", "sub(o2,o) => sub(mix(o2,P), mix(o,P)); and sub(mix(D,o2), mix(D,o)) when no scalar of o shadows a key of D")
assume("OptTheory.ext", "a pruning of a dictionary that keeps the whole subtree under every top-level key is that dictionary")
assume("OptTheory.set_dotted_key", "set_dotted_key(k,v,{}) yields the singleton tree single(k,v)")
assume("OptTheory.resolve", "confectioner.resolve(v,o): template-free values are returned unchanged; otherwise KeyError(k)/TypeError "
       "for the first unresolvable referenced key, else a value depending on o only through the subtrees at RD(v,o)")
assume("OptTheory.subtree", "equal subtree value at k in two dictionaries implies equal presence/value at every key below k")


def opt_axioms():
    o, a, b, o2 = z3.Consts("o! a! b! o2!", Opt)
    k, p, q = z3.Consts("k! p! q!", Key)
    v = z3.Const("v!", Val)
    S = z3.Const("S!", KSet)
    ax = []
    # strict prefix order
    ax.append(z3.ForAll([k], z3.Not(anc(k, k)), patterns=[anc(k, k)]))
    ax.append(z3.ForAll([p, q, k], z3.Implies(z3.And(anc(p, q), anc(q, k)), anc(p, k)), patterns=[z3.MultiPattern(anc(p, q), anc(q, k))]))
    # down-sets are chains
    ax.append(z3.ForAll([p, q, k], z3.Implies(z3.And(anc(p, k), anc(q, k)), z3.Or(p == q, anc(p, q), anc(q, p))),
                        patterns=[z3.MultiPattern(anc(p, k), anc(q, k))]))
    # tree well-formedness
    ax.append(z3.ForAll([o, p, k], z3.Implies(z3.And(has(o, k), anc(p, k)),
                                              z3.And(has(o, p), z3.Or(isdict(get(o, p)), islist(get(o, p))))),
                        patterns=[z3.MultiPattern(has(o, k), anc(p, k))]))
    # blocked: some proper prefix present with a scalar
    ax.append(z3.ForAll([o, k], z3.Implies(blocked(o, k), z3.Not(has(o, k))), patterns=[blocked(o, k)]))
    # empty
    ax.append(z3.ForAll([k], z3.Not(has(EMPTY, k)), patterns=[has(EMPTY, k)]))
    ax.append(z3.ForAll([k], z3.Not(blocked(EMPTY, k)), patterns=[blocked(EMPTY, k)]))
    # subtree determinism
    ax.append(z3.ForAll([o, o2, p, k],
                        z3.Implies(z3.And(has(o, p), has(o2, p), get(o, p) == get(o2, p), anc(p, k)),
                                   z3.And(has(o, k) == has(o2, k), z3.Implies(has(o, k), get(o, k) == get(o2, k)),
                                          blocked(o, k) == blocked(o2, k))),
                        patterns=[z3.MultiPattern(get(o, p), get(o2, p), anc(p, k), has(o, k)),
                                  z3.MultiPattern(get(o, p), get(o2, p), anc(p, k), has(o2, k))]))
    # the order of law L2 ("below"): every key present in o2 is present in o; values of keys outside the reported set are unconstrained
    # (a pruning is the special case the statement of C03 uses)
    ax.append(z3.ForAll([o], sub(o, o), patterns=[sub(o, o)]))
    ax.append(z3.ForAll([o2, o, k], z3.Implies(z3.And(sub(o2, o), has(o2, k)), has(o, k)), patterns=[z3.MultiPattern(sub(o2, o), has(o2, k))]))
    ax.append(z3.ForAll([o2, o, k], z3.Implies(z3.And(sub(o2, o), z3.Not(has(o, k))), z3.Not(has(o2, k))), patterns=[z3.MultiPattern(sub(o2, o), has(o, k))]))
    # shadow(b,k): a proper prefix of k is present in b and is not a dict
    # (only the two directions the proofs use)
    ax.append(z3.ForAll([b, p, k], z3.Implies(z3.And(anc(p, k), has(b, p), z3.Not(isdict(get(b, p)))), shadow(b, k)),
                        patterns=[z3.MultiPattern(anc(p, k), has(b, p), shadow(b, k))]))
    ax.append(z3.ForAll([b, k], z3.Implies(has(b, k), z3.Not(shadow(b, k))), patterns=[z3.MultiPattern(has(b, k), shadow(b, k))]))
    ax.append(z3.ForAll([k], z3.Not(shadow(EMPTY, k)), patterns=[shadow(EMPTY, k)]))
    # mix
    ax.append(z3.ForAll([a, b, k], has(mix(a, b), k) == z3.Or(has(b, k), z3.And(has(a, k), z3.Not(shadow(b, k)))),
                        patterns=[has(mix(a, b), k)]))
    ax.append(z3.ForAll([a, b, k], z3.Implies(z3.And(has(b, k), z3.Not(z3.And(isdict(get(b, k)), has(a, k), isdict(get(a, k))))),
                                              get(mix(a, b), k) == get(b, k)),
                        patterns=[get(mix(a, b), k)]))
    ax.append(z3.ForAll([a, b, k], z3.Implies(z3.And(has(a, k), z3.Not(has(b, k)), z3.Not(shadow(b, k))),
                                              get(mix(a, b), k) == get(a, k)),
                        patterns=[get(mix(a, b), k)]))
    ax.append(z3.ForAll([a, b, k], z3.Implies(z3.And(has(b, k), isdict(get(b, k)), has(a, k), isdict(get(a, k))),
                                              get(mix(a, b), k) == mixv(get(a, k), get(b, k))),
                        patterns=[get(mix(a, b), k)]))
    # a dict node of `a` untouched by b (no key of b at or below k) keeps its value -- stated via ghost `touch`
    ax.append(z3.ForAll([a, b, k], z3.Implies(z3.And(has(mix(a, b), k), has(b, k), isdict(get(b, k))), isdict(get(mix(a, b), k))),
                        patterns=[get(mix(a, b), k)]))
    ax.append(z3.ForAll([a, b, k], z3.Implies(z3.And(has(a, k), z3.Not(has(b, k)), z3.Not(shadow(b, k))),
                                              isdict(get(mix(a, b), k)) == isdict(get(a, k))),
                        patterns=[get(mix(a, b), k)]))
    # pruning is preserved by overlaying the same pre-set dictionary (forced options win) ...
    ax.append(z3.ForAll([o2, o, b], z3.Implies(sub(o2, o), sub(mix(o2, b), mix(o, b))), patterns=[z3.MultiPattern(sub(o2, o), mix(o2, b), mix(o, b))]))
    # ... and by underlaying defaults, unless a scalar of the caller's dictionary shadows a default section (noshadow: finding F24)
    ax.append(z3.ForAll([o2, o, a], z3.Implies(z3.And(sub(o2, o), noshadow(o, a)), sub(mix(a, o2), mix(a, o))),
                        patterns=[z3.MultiPattern(sub(o2, o), mix(a, o2), mix(a, o))]))
    ax.append(z3.ForAll([o, a, k], z3.Implies(z3.And(noshadow(o, a), has(a, k)), z3.Not(shadow(o, k))),
                        patterns=[z3.MultiPattern(noshadow(o, a), has(a, k))]))
    ax.append(z3.ForAll([o, a, k], z3.Implies(z3.And(noshadow(o, a), has(a, k), has(o, k)), isdict(get(o, k)) == isdict(get(a, k))),
                        patterns=[z3.MultiPattern(noshadow(o, a), has(a, k), has(o, k))]))
    ax.append(z3.ForAll([a], mix(a, EMPTY) == a, patterns=[mix(a, EMPTY)]))
    ax.append(z3.ForAll([a], mix(EMPTY, a) == a, patterns=[mix(EMPTY, a)]))
    # single
    ax.append(z3.ForAll([k, v], z3.And(has(single(k, v), k), get(single(k, v), k) == v), patterns=[single(k, v)]))
    ax.append(z3.ForAll([k, v, p], has(single(k, v), p) == z3.Or(p == k, anc(p, k), z3.And(anc(k, p), False)),
                        patterns=[has(single(k, v), p)]))
    ax.append(z3.ForAll([k, v, p], z3.Implies(anc(p, k), isdict(get(single(k, v), p))), patterns=[get(single(k, v), p)]))
    # top-level view
    ax.append(z3.ForAll([o, k], z3.Implies(top(k), haskey_top(o, k) == has(o, k)), patterns=[haskey_top(o, k)]))
    ax.append(z3.ForAll([o, k], z3.Implies(haskey_top(o, k), top(k)), patterns=[haskey_top(o, k)]))
    ax.append(z3.ForAll([o, k], dget(o, k) == z3.If(haskey_top(o, k), get(o, k), NONE), patterns=[dget(o, k)]))
    ax.append(z3.ForAll([o, k], z3.IsMember(k, topkeys(o)) == haskey_top(o, k), patterns=[z3.IsMember(k, topkeys(o))]))
    # extensionality through the top-level keys: a pruning that keeps every top-level subtree is the same dictionary
    ax.append(z3.ForAll([o, o2], z3.Implies(z3.And(sub(o2, o), agreeP(o, o2, topkeys(o))), o2 == o),
                        patterns=[z3.MultiPattern(sub(o2, o), topkeys(o))]))
    # restrict (ghost)
    ax.append(z3.ForAll([o, S], sub(restrict(o, S), o), patterns=[restrict(o, S)]))
    ax.append(z3.ForAll([o, S, k], z3.Implies(z3.And(z3.IsMember(k, S), has(o, k)),
                                              z3.And(has(restrict(o, S), k), get(restrict(o, S), k) == get(o, k))),
                        patterns=[z3.MultiPattern(restrict(o, S), z3.IsMember(k, S))]))
    return ax


def resolve_axioms():
    o, o2 = z3.Consts("o! o2!", Opt)
    v = z3.Const("v!", Val)
    k = z3.Const("k!", Key)
    x = resolve_exc(v, o)
    ax = []
    # failure: KeyError naming a key of the read set that cannot be looked up, or the TypeError of a blocked prefix
    ax.append(z3.ForAll([v, o], z3.Implies(z3.Not(resolve_ok(v, o)),
                                           z3.Or(z3.And(is_cls["KeyError"](x), z3.Not(has_cause(x)), z3.Not(has(o, exc_key(x))), z3.Not(blocked(o, exc_key(x)))),
                                                 z3.And(is_cls["TypeError"](x), z3.Not(has_cause(x))))),
                        patterns=[resolve_ok(v, o)]))
    # the KeyError of a failing substitution names a key that cannot be looked up (also stated separately: KeyError and TypeError are distinct classes)
    ax.append(z3.ForAll([v, o], z3.Implies(z3.And(z3.Not(resolve_ok(v, o)), is_cls["KeyError"](x)), z3.And(z3.Not(has(o, exc_key(x))), z3.Not(is_cls["TypeError"](x)))),
                        patterns=[resolve_ok(v, o)]))
    ax.append(z3.ForAll([v, o], z3.Implies(z3.Not(resolve_ok(v, o)), z3.And(z3.Not(missing(x)), origin(x) == x)),
                        patterns=[resolve_ok(v, o)]))
    # read set present when it succeeds
    ax.append(z3.ForAll([v, o, k], z3.Implies(z3.And(resolve_ok(v, o), z3.IsMember(k, RD(v, o))), has(o, k)),
                        patterns=[z3.MultiPattern(resolve_ok(v, o), z3.IsMember(k, RD(v, o)))]))
    # dependence only through the read set (relational form)
    ax.append(z3.ForAll([v, o, o2], z3.Implies(z3.And(resolve_ok(v, o), agree(o, o2, RD(v, o))),
                                               z3.And(resolve_ok(v, o2), resolve_val(v, o2) == resolve_val(v, o), RD(v, o2) == RD(v, o))),
                        patterns=[z3.MultiPattern(resolve_ok(v, o), resolve_ok(v, o2))]))
    # non-strings that are neither list nor dict are returned unchanged and read nothing
    ax.append(z3.ForAll([v, o], z3.Implies(z3.And(z3.Not(isstr(v)), z3.Not(isdict(v)), z3.Not(islist(v))),
                                           z3.And(resolve_ok(v, o), resolve_val(v, o) == v, RD(v, o) == z3.EmptySet(Key))),
                        patterns=[resolve_ok(v, o)]))
    # a string reads at least its own template keys
    ax.append(z3.ForAll([v, o, k], z3.Implies(z3.And(isstr(v), resolve_ok(v, o), z3.IsMember(k, tkeys(v))), z3.IsMember(k, RD(v, o))),
                        patterns=[z3.MultiPattern(resolve_ok(v, o), z3.IsMember(k, tkeys(v)))]))
    return ax


# --------------------------------------------------------------------------- interface laws (for all Ev: children, A-ext)
assume("A-ext", "every Evaluatable reachable through a field, or returned by a user bind function, obeys the interface "
       "contract (laws L1-L6) -- proved for every class of /repo, assumed for third-party classes")
assume("A-pure", "user callables are deterministic functions of their arguments and raise only Exception subclasses")
assume("A-py", "parameters have their annotated types; no monkey-patching; evaluation terminates (partial correctness)")


def fail_equiv(x, y):
    """same failure class (DESIGN 3.2): missing-option-ness agrees."""
    return missing(x) == missing(y)


def ev_equiv(e, o, o2):
    return z3.And(EVok(e, o) == EVok(e, o2),
                  z3.Implies(EVok(e, o), EVval(e, o) == EVval(e, o2)),
                  z3.Implies(z3.Not(EVok(e, o)), fail_equiv(EVexc(e, o), EVexc(e, o2))))


def vl_equiv(e, o, o2):
    return z3.And(VLok(e, o) == VLok(e, o2),
                  z3.Implies(z3.Not(VLok(e, o)), fail_equiv(VLexc(e, o), VLexc(e, o2))))


def law_L1(e, o):
    k = z3.Const("k!L1", Key)
    return z3.Implies(KSok(e, o), z3.ForAll([k], z3.Implies(z3.IsMember(k, KSset(e, o)), has(o, k)),
                                            patterns=[z3.IsMember(k, KSset(e, o))]))


def law_L2(e, o, o2):
    return z3.Implies(z3.And(KSok(e, o), sub(o2, o), agree(o, o2, KSset(e, o))),
                      z3.And(KSok(e, o2), KSset(e, o2) == KSset(e, o), ev_equiv(e, o, o2), vl_equiv(e, o, o2)))


def law_L3(e, o):
    return z3.Implies(z3.Not(KSok(e, o)), z3.Not(EVok(e, o)))


def law_L4a(e, o):
    """a passing validate guarantees evaluate cannot fail for a missing option."""
    return z3.Implies(VLok(e, o), z3.Or(EVok(e, o), z3.Not(missing(EVexc(e, o)))))


def law_L6(e, o):
    x = EVexc(e, o)
    return z3.Implies(z3.Not(EVok(e, o)), z3.And(is_cls["EvaluationError"](x), exc_src(x) == e))


def law_L6k(e, o):
    """a missing-option failure of evaluate / validate reports a key that is absent from the options (C12: 'a missing option being reported with its key')"""
    return z3.And(z3.Implies(z3.And(z3.Not(EVok(e, o)), missing(EVexc(e, o))), z3.Not(has(o, mkey(EVexc(e, o))))),
                  z3.Implies(z3.And(z3.Not(VLok(e, o)), missing(VLexc(e, o))), z3.Not(has(o, mkey(VLexc(e, o))))),
                  z3.Implies(z3.And(z3.Not(KSok(e, o)), missing(KSexc(e, o))), z3.Not(has(o, mkey(KSexc(e, o))))))


def law_L6v(e, o):
    """validate / keys / explain of an Evaluatable raise EvaluationError subclasses only."""
    return z3.And(z3.Implies(z3.Not(VLok(e, o)), is_cls["EvaluationError"](VLexc(e, o))),
                  z3.Implies(z3.Not(KSok(e, o)), is_cls["EvaluationError"](KSexc(e, o))),
                  z3.Implies(z3.Not(EXok(e, o)), is_cls["InsufficientInformationError"](EXexc(e, o))))


def law_L5(e, o):
    k = z3.Const("k!L5", Key)
    X = EXset(e, o)
    covers = z3.Implies(z3.And(EXok(e, o), KSok(e, o)), z3.IsSubset(KSset(e, o), X))
    none_missing = z3.ForAll([k], z3.Implies(z3.IsMember(k, X), has(o, k)), patterns=[z3.IsMember(k, X)])
    a = z3.Implies(z3.And(EXok(e, o), none_missing), z3.Or(VLok(e, o), z3.Not(missing(VLexc(e, o)))))
    b = z3.Implies(z3.And(EXok(e, o), z3.Not(none_missing)), z3.Not(VLok(e, o)))
    c = z3.Implies(z3.And(EXok(e, o), z3.Not(VLok(e, o)), missing(VLexc(e, o))),
                   z3.And(z3.IsMember(mkey(VLexc(e, o)), X), z3.Not(has(o, mkey(VLexc(e, o))))))
    a2 = z3.Implies(z3.And(EXok(e, o), none_missing), z3.Or(EVok(e, o), z3.Not(missing(EVexc(e, o)))))
    c2 = z3.Implies(z3.And(EXok(e, o), z3.Not(EVok(e, o)), missing(EVexc(e, o))),
                    z3.And(z3.IsMember(mkey(EVexc(e, o)), X), z3.Not(has(o, mkey(EVexc(e, o))))))
    d = z3.Implies(z3.And(EXok(e, o), z3.Not(KSok(e, o)), missing(KSexc(e, o))),
                   z3.And(z3.IsMember(mkey(KSexc(e, o)), X), z3.Not(has(o, mkey(KSexc(e, o))))))
    return z3.And(covers, a, c, d, a2, c2)


def law_L5d(e, o):
    """when validation passes, explain can choose every branch"""
    return z3.Implies(z3.Or(VLok(e, o), EVok(e, o)), EXok(e, o))


def law_L4t(e, o):
    """under A-total: validate, keys and evaluate succeed or fail together"""
    return z3.And(EVok(e, o) == VLok(e, o), KSok(e, o) == VLok(e, o))


assume("A-total", "(only for the obligations named L4t/L5b) user callables and effects are total, option values lie in their declared "
       "domains: the precondition of the 'succeed or fail together' half of C10 and of C11's 'absent listed key => validate fails'")


def total_axioms():
    f, a, v = z3.Consts("f! a! v!", Val)
    e = z3.Const("e!", Ev)
    o = z3.Const("o!", Opt)
    k = z3.Const("k!", Key)
    return [z3.ForAll([f, a], call_ok(f, a), patterns=[call_ok(f, a)]),
            z3.ForAll([e, v, o], TFok(e, v, o) == VLok(e, o), patterns=[TFok(e, v, o)]),
            z3.ForAll([e, o], law_L4t(e, o), patterns=[EVok(e, o)]),
            z3.ForAll([e, o], law_L4t(e, o), patterns=[VLok(e, o)]),
            z3.ForAll([e, o], law_L4t(e, o), patterns=[KSok(e, o)]),
            z3.ForAll([e, o, k], z3.Implies(z3.And(EXok(e, o), z3.IsMember(k, EXset(e, o)), z3.Not(has(o, k))), z3.Not(VLok(e, o))),
                      patterns=[z3.MultiPattern(z3.IsMember(k, EXset(e, o)), has(o, k))])]


def child_laws(which=("L1", "L2", "L3", "L4a", "L5", "L5d", "L6", "L6v")):
    e = z3.Const("e!c", Ev)
    o, o2 = z3.Consts("o!c o2!c", Opt)
    ax = []
    if "L1" in which:
        ax.append(z3.ForAll([e, o], law_L1(e, o), patterns=[KSok(e, o)]))
    if "L2" in which:
        ax.append(z3.ForAll([e, o, o2], law_L2(e, o, o2), patterns=[z3.MultiPattern(KSok(e, o), sub(o2, o))]))
    if "L3" in which:
        ax.append(z3.ForAll([e, o], law_L3(e, o), patterns=[KSok(e, o)]))
    if "L4a" in which:
        ax.append(z3.ForAll([e, o], law_L4a(e, o), patterns=[VLok(e, o)]))
    if "L5" in which:
        ax.append(z3.ForAll([e, o], law_L5(e, o), patterns=[EXok(e, o)]))
    if "L5d" in which:
        ax.append(z3.ForAll([e, o], law_L5d(e, o), patterns=[EXok(e, o)]))
    if "L6" in which:
        ax.append(z3.ForAll([e, o], law_L6(e, o), patterns=[EVok(e, o)]))
    if "L6k" in which:
        ax.append(z3.ForAll([e, o], law_L6k(e, o), patterns=[EVok(e, o)]))
        ax.append(z3.ForAll([e, o], law_L6k(e, o), patterns=[VLok(e, o)]))
        ax.append(z3.ForAll([e, o], law_L6k(e, o), patterns=[KSok(e, o)]))
    if "L6v" in which:
        ax.append(z3.ForAll([e, o], law_L6v(e, o), patterns=[VLok(e, o)]))
        ax.append(z3.ForAll([e, o], law_L6v(e, o), patterns=[KSok(e, o)]))
        ax.append(z3.ForAll([e, o], law_L6v(e, o), patterns=[EXok(e, o)]))
    return ax


def tk_contract_axioms():
    """contract of labrea.option._templated_keys(value, options[, explain]) - PROVED for its body by contracts/option_c04.py,
    used modularly at its call sites (Option.keys / Option.explain)."""
    v = z3.Const("v!t", Val)
    o, o2 = z3.Consts("o!t o2!t", Opt)
    k = z3.Const("k!t", Key)
    x = TKexc(v, o)
    return [
        # TK1 present-only
        z3.ForAll([v, o, k], z3.Implies(z3.And(TKok(v, o), z3.IsMember(k, TKset(v, o))), has(o, k)),
                  patterns=[z3.MultiPattern(TKok(v, o), z3.IsMember(k, TKset(v, o)))]),
        # TK-RD reads of the substitution are reported
        z3.ForAll([v, o], z3.Implies(z3.And(TKok(v, o), resolve_ok(v, o)), subsetP(RD(v, o), TKset(v, o))), patterns=[TKok(v, o)]),
        # TK2 stability under restriction
        z3.ForAll([v, o, o2], z3.Implies(z3.And(TKok(v, o), sub(o2, o), agreeP(o, o2, TKset(v, o))),
                                         z3.And(TKok(v, o2), TKset(v, o2) == TKset(v, o), TXset(v, o2) == TXset(v, o))),
                  patterns=[z3.MultiPattern(TKok(v, o), sub(o2, o), TKok(v, o2)), z3.MultiPattern(TKok(v, o), sub(o2, o), TXset(v, o2))]),
        # TK3 failure: a missing-key error naming an absent key; then the substitution fails as well
        z3.ForAll([v, o], z3.Implies(z3.Not(TKok(v, o)), z3.And(is_cls["KeyNotFoundError"](x), missing(x), z3.Not(has(o, mkey(x))),
                                                                z3.IsMember(mkey(x), TXset(v, o)), z3.Not(resolve_ok(v, o)))),
                  patterns=[TKok(v, o)]),
        # explain variant covers the keys variant; keys absent from explain's set... (L5-style clauses)
        z3.ForAll([v, o], z3.Implies(TKok(v, o), subsetP(TKset(v, o), TXset(v, o))), patterns=[TKok(v, o)]),
        z3.ForAll([v, o, k], z3.Implies(z3.And(TKok(v, o), z3.IsMember(k, TXset(v, o))), has(o, k)),
                  patterns=[z3.MultiPattern(TKok(v, o), z3.IsMember(k, TXset(v, o)))]),
        # TX-miss: a key whose absence makes the substitution fail is listed by the explain variant
        z3.ForAll([v, o], z3.Implies(z3.And(z3.Not(resolve_ok(v, o)), is_cls["KeyError"](resolve_exc(v, o))),
                                     z3.IsMember(exc_key(resolve_exc(v, o)), TXset(v, o))), patterns=[resolve_ok(v, o)]),
        # and when every listed key is present the substitution cannot fail for a missing key
        # TX-b: a listed key that is absent makes the keys variant (and hence the substitution) fail
        z3.ForAll([v, o, k], z3.Implies(z3.And(z3.IsMember(k, TXset(v, o)), z3.Not(has(o, k))), z3.Not(TKok(v, o))),
                  patterns=[z3.MultiPattern(z3.IsMember(k, TXset(v, o)), has(o, k))]),
        # TK4: when every (transitively) referenced key can be looked up the substitution succeeds
        z3.ForAll([v, o], z3.Implies(TKok(v, o), resolve_ok(v, o)), patterns=[TKok(v, o)]),
    ]


assume("A-plainrefs", "a {KEY} embedded in longer text refers to a value whose str() contains no braces (a section's str() does: recorded finding F28); "
       "the structure axioms of resolve for strings are stated - and bounded-validated - under this assumption")
assume("OptTheory.resolve.structure", "structure of confectioner.resolve (bounded-validated): for a string v without ':name:' placeholders resolve(v,o) succeeds iff every "
       "referenced key can be looked up and its value resolves, and reads exactly those keys plus what their values read; for a list/dict it resolves every element")


def resolve_structure_axioms():
    v = z3.Const("v!s", Val)
    o = z3.Const("o!s", Opt)
    k = z3.Const("k!s", Key)
    i = z3.Const("i!s", I)
    cont = z3.Or(isdict(v), islist(v))
    return [
        # strings
        z3.ForAll([v, o, k], z3.Implies(z3.And(isstr(v), resolve_ok(v, o), z3.IsMember(k, tkeys(v))),
                                        z3.And(has(o, k), resolve_ok(get(o, k), o), z3.IsMember(k, RD(v, o)), subsetP(RD(get(o, k), o), RD(v, o)))),
                  patterns=[z3.MultiPattern(resolve_ok(v, o), z3.IsMember(k, tkeys(v)))]),
        z3.ForAll([v, o], z3.Implies(z3.And(isstr(v), z3.Not(resolve_ok(v, o))),
                                     z3.And(z3.IsMember(str_bad(v, o), tkeys(v)),
                                            z3.Or(z3.Not(has(o, str_bad(v, o))), z3.Not(resolve_ok(get(o, str_bad(v, o)), o))))),
                  patterns=[z3.MultiPattern(isstr(v), resolve_ok(v, o))]),
        z3.ForAll([v, o, k], z3.Implies(z3.And(isstr(v), resolve_ok(v, o), z3.IsMember(k, RD(v, o))),
                                        z3.Or(z3.IsMember(k, tkeys(v)), z3.And(z3.IsMember(rd_via(v, o, k), tkeys(v)), z3.IsMember(k, RD(get(o, rd_via(v, o, k)), o))))),
                  patterns=[z3.MultiPattern(isstr(v), z3.IsMember(k, RD(v, o)))]),
        # which key a KeyError of the substitution names: the failing reference itself, or what its value's substitution names
        z3.ForAll([v, o], z3.Implies(z3.And(isstr(v), z3.Not(resolve_ok(v, o)), is_cls["KeyError"](resolve_exc(v, o))),
                                     z3.Or(z3.And(z3.Not(has(o, str_bad(v, o))), exc_key(resolve_exc(v, o)) == str_bad(v, o)),
                                           z3.And(has(o, str_bad(v, o)), z3.Not(resolve_ok(get(o, str_bad(v, o)), o)),
                                                  is_cls["KeyError"](resolve_exc(get(o, str_bad(v, o)), o)),
                                                  exc_key(resolve_exc(v, o)) == exc_key(resolve_exc(get(o, str_bad(v, o)), o))))),
                  patterns=[resolve_exc(v, o)]),
        z3.ForAll([v, o], z3.Implies(z3.And(cont, z3.Not(resolve_ok(v, o)), is_cls["KeyError"](resolve_exc(v, o))),
                                     z3.And(is_cls["KeyError"](resolve_exc(vchild(v, cont_bad(v, o)), o)),
                                            exc_key(resolve_exc(v, o)) == exc_key(resolve_exc(vchild(v, cont_bad(v, o)), o)))),
                  patterns=[resolve_exc(v, o)]),
        # containers
        z3.ForAll([v], vnchild(v) >= 0, patterns=[vnchild(v)]),
        z3.ForAll([v, o, i], z3.Implies(z3.And(cont, resolve_ok(v, o), i >= 0, i < vnchild(v)),
                                        z3.And(resolve_ok(vchild(v, i), o), subsetP(RD(vchild(v, i), o), RD(v, o)))),
                  patterns=[z3.MultiPattern(resolve_ok(v, o), vchild(v, i))]),
        z3.ForAll([v, o], z3.Implies(z3.And(cont, z3.Not(resolve_ok(v, o))),
                                     z3.And(cont_bad(v, o) >= 0, cont_bad(v, o) < vnchild(v), z3.Not(resolve_ok(vchild(v, cont_bad(v, o)), o)))),
                  patterns=[z3.MultiPattern(vnchild(v), resolve_ok(v, o))]),
        z3.ForAll([v, o, k], z3.Implies(z3.And(cont, resolve_ok(v, o), z3.IsMember(k, RD(v, o))),
                                        z3.And(rd_idx(v, o, k) >= 0, rd_idx(v, o, k) < vnchild(v), z3.IsMember(k, RD(vchild(v, rd_idx(v, o, k)), o)))),
                  patterns=[z3.MultiPattern(vnchild(v), z3.IsMember(k, RD(v, o)))]),
    ]


assume("OptTheory.resolve.escape", "a string whose braces are all backslash-escaped (s.replace('{','\\\\{').replace('}','\\\\}')) contains no template keys and "
       "resolve returns the original string s for it, reading nothing (confectioner's TEMPLATE_KEY look-behind and remove_escapes; bounded-validated)")


def literal(x):
    """the escaped form labrea.template._literal builds from the string x"""
    return str_replace(str_replace(x, val_of_key(LBRACE), val_of_key(ESC_LBRACE)), val_of_key(RBRACE), val_of_key(ESC_RBRACE))


LBRACE, ESC_LBRACE, RBRACE, ESC_RBRACE = (z3.Const("key!" + t, Key) for t in ("{", "\\{", "}", "\\}"))


def escape_axioms():
    x, a, b = z3.Consts("x!e a!e b!e", Val)
    o = z3.Const("o!e", Opt)
    lx = literal(x)
    return [
        z3.ForAll([x, a, b], isstr(str_replace(x, a, b)), patterns=[str_replace(x, a, b)]),
        z3.ForAll([x, o], z3.Implies(isstr(x), z3.And(resolve_ok(lx, o), resolve_val(lx, o) == x, RD(lx, o) == z3.EmptySet(Key))), patterns=[resolve_ok(lx, o)]),
        z3.ForAll([x], z3.Implies(isstr(x), tkeys(lx) == z3.EmptySet(Key)), patterns=[tkeys(lx)]),
    ]


assume("P-str.param", "TEMPLATE_PARAM matches exactly the keys f':{name}:' of identifier names: isparam(pkey(n)), such keys are top-level, "
       "and key[1:-1] inverts the f-string (pname(pkey(n)) = n, pkey(pname(k)) = k for parameter keys); keyword-argument names are identifiers")
assume("OptTheory.resolve.params", "resolve(text, mix(o, P)) for a parameter dictionary P (only ':name:' keys, escaped string values) and caller options o without "
       "':name:' keys or references to them (A-noparam): succeeds iff every referenced parameter is bound in P and every referenced option is present in o and "
       "resolves under o alone; the result is a function of the parameter texts and the resolved referenced values (bounded-validated: harness/tp_validate.py)")
pdict = F("pdict", Opt, B)           # a parameter dictionary built by Template.evaluate
noparam = F("noparam", Opt, B)       # caller options without ':name:' keys / references (A-noparam)
pbad = F("pbad", Val, Opt, Opt, Key)
pdiff = F("pdiff", Val, Opt, Opt, Opt, Opt, Key)


def template_axioms():
    v = z3.Const("v!p", Val)
    o, P, o2, P2 = z3.Consts("o!p P!p o2!p P2!p", Opt)
    k, n = z3.Consts("k!p n!p", Key)
    M, M2 = mix(o, P), mix(o2, P2)
    pre = z3.And(isstr(v), pdict(P), noparam(o))
    bad = pbad(v, o, P)
    d = pdiff(v, o, P, o2, P2)
    x = resolve_exc(v, M)
    refok = lambda oo, kk: z3.And(has(oo, kk), resolve_ok(get(oo, kk), oo))
    return [
        z3.ForAll([n], z3.And(isparam(pkey(n)), top(pkey(n)), pname(pkey(n)) == n), patterns=[pkey(n)]),
        z3.ForAll([k], z3.Implies(isparam(k), z3.And(pkey(pname(k)) == k, top(k))), patterns=[isparam(k)]),
        # (a) success <=> every referenced parameter is bound and every referenced option resolves under the caller's options
        z3.ForAll([v, o, P, k], z3.Implies(z3.And(pre, resolve_ok(v, M), z3.IsMember(k, tkeys(v))),
                                           z3.If(isparam(k), has(P, k), refok(o, k))),
                  patterns=[z3.MultiPattern(resolve_ok(v, M), z3.IsMember(k, tkeys(v)))]),
        z3.ForAll([v, o, P], z3.Implies(z3.And(pre, z3.Not(resolve_ok(v, M))),
                                        z3.And(z3.IsMember(bad, tkeys(v)), z3.If(isparam(bad), z3.Not(has(P, bad)), z3.Not(refok(o, bad))))),
                  patterns=[resolve_ok(v, M)]),
        # (c) which key a KeyError names
        z3.ForAll([v, o, P], z3.Implies(z3.And(pre, z3.Not(resolve_ok(v, M)), is_cls["KeyError"](x)),
                                        z3.Or(z3.And(z3.If(isparam(bad), z3.Not(has(P, bad)), z3.Not(has(o, bad))), exc_key(x) == bad),
                                              z3.And(z3.Not(isparam(bad)), has(o, bad), z3.Not(resolve_ok(get(o, bad), o)), is_cls["KeyError"](resolve_exc(get(o, bad), o)),
                                                     exc_key(x) == exc_key(resolve_exc(get(o, bad), o))))),
                  patterns=[resolve_exc(v, M)]),
        # (b) the value is a function of the parameter texts and of the resolved referenced values
        z3.ForAll([v, o, P, o2, P2], z3.Implies(z3.And(pre, pdict(P2), noparam(o2), resolve_ok(v, M), resolve_ok(v, M2), resolve_val(v, M) != resolve_val(v, M2)),
                                                z3.And(z3.IsMember(d, tkeys(v)),
                                                       z3.If(isparam(d), get(P, d) != get(P2, d), resolve_val(get(o, d), o) != resolve_val(get(o2, d), o2)))),
                  patterns=[z3.MultiPattern(resolve_val(v, M), resolve_val(v, M2))]),
    ]


# --------------------------------------------------------------------------- contract of labrea.iterable.Map._iter (sidecar; see contracts/map_iter.py)
ITERok = F("ITERok", Ev, Opt, B)      # the option sets can be built from the evaluated iterables
ITERv = F("ITERv", Ev, Opt, Ev)       # the expression _iter returns
ITERexc = F("ITERexc", Ev, Opt, Exc)
idiff = F("idiff", Ev, Opt, Opt, I)


def map_iter_axioms():
    """Map._iter(o) depends on o only through the values of the iterables (obligation Map._iter:frame)"""
    s = z3.Const("s!mi", Ev)
    o, o2 = z3.Consts("o!mi o2!mi", Opt)
    n = z3.Function("fld!Map.iterables#n", Ev, I)
    itv = z3.Function("fld!Map.iterables#val", Ev, I, Ev)
    d = idiff(s, o, o2)
    differ = z3.And(d >= 0, d < n(s), EVval(itv(s, d), o) != EVval(itv(s, d), o2))
    return [
        z3.ForAll([s, o, o2], z3.Implies(ITERv(s, o) != ITERv(s, o2), differ), patterns=[z3.MultiPattern(ITERv(s, o), ITERv(s, o2))]),
        z3.ForAll([s, o, o2], z3.Implies(ITERok(s, o) != ITERok(s, o2), differ), patterns=[z3.MultiPattern(ITERok(s, o), ITERok(s, o2))]),
    ]


def call_axioms():
    f, a = z3.Consts("f! a!", Val)
    x = call_exc(f, a)
    return [z3.ForAll([f, a], z3.Implies(z3.Not(call_ok(f, a)), z3.And(is_cls["Exception"](x), z3.Not(missing(x)))), patterns=[call_ok(f, a)])]


assume("A-pure.notmissing", "an exception raised by a user callable is not (and does not originate in) a labrea KeyNotFoundError")


def base_axioms():
    return exc_hierarchy_axioms() + val_axioms() + opt_axioms() + agree_axioms() + resolve_axioms() + call_axioms() + tk_contract_axioms() + escape_axioms()
