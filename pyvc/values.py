"""Symbolic values of the VC generator."""
from __future__ import annotations

import z3

from . import theory as T


class Unsupported(Exception):
    """a construct outside the supported subset: the function is out of reach (UNDECIDED, never a violation)."""


class MissingT:
    def __repr__(self):
        return "MISSING"


MISSING = MissingT()


class Sym:
    """symbolic scalar; kind in ev/opt/key/val/bool/int/exc; cls: static class knowledge for ev (ClassInfo) """
    __slots__ = ("kind", "term", "cls", "facts")

    def __init__(self, kind, term, cls=None):
        self.kind = kind
        self.term = term
        self.cls = cls

    def __repr__(self):
        return f"<{self.kind} {self.term}{' :' + self.cls.name if self.cls else ''}>"


class Obj:
    """instance of a repo class (or of a builtin exception class) with python-side fields.
    term: identity (Ev sort) or, for exceptions, the Exc term."""

    def __init__(self, cls, fields, term, is_exc=False, builtin_cls=None):
        self.cls = cls              # ClassInfo or None for builtin exception classes
        self.fields = fields
        self.term = term
        self.is_exc = is_exc
        self.builtin_cls = builtin_cls  # name, when cls is None

    @property
    def clsname(self):
        return self.cls.name if self.cls else self.builtin_cls

    def __repr__(self):
        return f"<obj {self.clsname} {self.term}>"


class ExcSym:
    """symbolic exception (from a modular call / user callable); bound: class-name upper bound or None."""

    def __init__(self, term, bound=None, user=False):
        self.term = term
        self.bound = bound
        self.user = user      # raised by a user-supplied callable

    def __repr__(self):
        return f"<exc {self.term} <= {self.bound}>"


class ClassRef:
    def __init__(self, ci=None, builtin=None):
        self.ci = ci
        self.builtin = builtin

    @property
    def name(self):
        return self.ci.name if self.ci else self.builtin

    def __repr__(self):
        return f"<classref {self.name}>"


class PyFunc:
    def __init__(self, node, module, env=None, owner=None, name=None):
        self.node = node
        self.module = module
        self.env = env          # closure env (Env) or None for module level
        self.owner = owner      # ClassInfo when defined in a class body
        self.name = name or getattr(node, "name", "<lambda>")
        self.attrs = {}         # function attributes set with setattr
        self.term = None        # Val identity when passed to uninterpreted contexts

    def __repr__(self):
        return f"<func {self.name}>"


class BoundMethod:
    def __init__(self, self_val, func):
        self.self_val = self_val
        self.func = func

    def __repr__(self):
        return f"<bound {self.func!r} of {self.self_val!r}>"


class Builtin:
    def __init__(self, name):
        self.name = name

    def __repr__(self):
        return f"<builtin {self.name}>"


class ModRef:
    def __init__(self, name):
        self.name = name

    def __repr__(self):
        return f"<modref {self.name}>"


class Partial:
    def __init__(self, func, args, kwargs):
        self.func, self.args, self.kwargs = func, list(args), dict(kwargs)


class PyTuple:
    def __init__(self, items):
        self.items = list(items)

    def __repr__(self):
        return f"T{tuple(self.items)!r}"


class PyList:
    def __init__(self, items):
        self.items = list(items)

    def __repr__(self):
        return f"L{self.items!r}"


class PyDict:
    """python dict with concrete (hashable python) keys"""

    def __init__(self, items=None):
        self.items = dict(items or {})

    def __repr__(self):
        return f"D{self.items!r}"


class KSetV:
    """finite set of keys in union normal form. parts:
       ('term', KSet term) | ('one', Key term) | ('big', [boundvars], cond, [parts])"""

    def __init__(self, parts=None):
        self.parts = list(parts or [])

    def copy(self):
        return KSetV(self.parts)

    def union(self, other):
        return KSetV(self.parts + other.parts)

    def mem(self, q):
        return _mem(q, self.parts)

    def __repr__(self):
        return f"KSet{self.parts!r}"


def _mem(q, parts):
    alts = []
    for p in parts:
        if p[0] == "term":
            alts.append(z3.IsMember(q, p[1]))
        elif p[0] == "one":
            alts.append(q == p[1])
        elif p[0] == "big":
            _, bvs, cond, inner = p
            body = z3.And(cond, _mem(q, inner))
            alts.append(z3.Exists(bvs, body) if bvs else body)
        elif p[0] == "minus":   # ('minus', parts, KSet term)
            alts.append(z3.And(_mem(q, p[1]), z3.Not(p[2](q))))
        else:
            raise AssertionError(p)
    return z3.Or(*alts) if alts else z3.BoolVal(False)


class SeqV:
    """sequence of symbolic length: n (z3 Int), elem(i) -> value"""

    def __init__(self, n, elem, kind="list"):
        self.n = n
        self.elem = elem
        self.kind = kind

    def __repr__(self):
        return f"<seq n={self.n}>"


class MapV:
    """ordered mapping of symbolic size: n, key(i) -> value, val(i) -> value; lookup by key through has/at when given"""

    def __init__(self, n, key, val, has=None, at=None):
        self.n, self.key, self.val = n, key, val
        self.has = has    # z3 fn Val -> Bool
        self.at = at      # python fn: Val term -> value

    def __repr__(self):
        return f"<map n={self.n}>"


class Delayed:
    """a generator object: forcing runs the comprehension"""

    def __init__(self, force):
        self.force = force
        self.forced = None


class Poison:
    def __init__(self, name):
        self.name = name


class LockV:
    def __init__(self, name):
        self.name = name


class HeapMap:
    """a module-level / instance dict modelled as a z3 array in the heap (name -> current array term)."""

    def __init__(self, name, keykind, valkind):
        self.name, self.keykind, self.valkind = name, keykind, valkind


def subst(v, pairs):
    """substitute z3 constants inside a value structure. pairs: [(old, new)]"""
    if isinstance(v, Sym):
        return Sym(v.kind, z3.substitute(v.term, *pairs), v.cls)
    if isinstance(v, ExcSym):
        return ExcSym(z3.substitute(v.term, *pairs), v.bound)
    if isinstance(v, PyTuple):
        return PyTuple([subst(x, pairs) for x in v.items])
    if isinstance(v, PyList):
        return PyList([subst(x, pairs) for x in v.items])
    if isinstance(v, KSetV):
        return KSetV([_subst_part(p, pairs) for p in v.parts])
    if isinstance(v, Obj):
        o = Obj(v.cls, {k: subst(x, pairs) for k, x in v.fields.items()}, z3.substitute(v.term, *pairs), v.is_exc, v.builtin_cls)
        return o
    if isinstance(v, SeqV):
        return SeqV(z3.substitute(v.n, *pairs) if z3.is_expr(v.n) else v.n, lambda i, f=v.elem: subst(f(i), pairs), v.kind)
    if isinstance(v, z3.ExprRef):
        return z3.substitute(v, *pairs)
    return v


def _subst_part(p, pairs):
    if p[0] in ("term", "one"):
        return (p[0], z3.substitute(p[1], *pairs))
    if p[0] == "big":
        return ("big", p[1], z3.substitute(p[2], *pairs), [_subst_part(x, pairs) for x in p[3]])
    raise AssertionError(p)


class ArrDict:
    """a mapping with opaque (Val) keys as two z3 arrays: present: Val->Bool, vals: Val->Val"""

    def __init__(self, present, vals):
        self.present, self.vals = present, vals

    def __repr__(self):
        return "<arrdict>"


class HeapListRef:
    """a list living in the heap under HeapMap `hm` at key term `key`"""

    def __init__(self, hm, key):
        self.hm, self.key = hm, key
