#!/bin/sh
# Build the overlay interpreter offline: Python 3.12 venv + z3-solver/cvc5/jsonschema wheels,
# with a .pth so the same interpreter imports the real labrea (editable install -> /repo) for replay.
set -e
cd "$(dirname "$0")"
if [ ! -x .venv/bin/python ] || ! .venv/bin/python -c "import z3, labrea, confectioner, jsonschema" 2>/dev/null; then
  rm -rf .venv
  /venv/bin/python -m venv .venv
  PIP_NO_INDEX=1 .venv/bin/pip install -q --no-index --find-links /opt/veriftools/wheels z3-solver cvc5 jsonschema
  echo "import site; site.addsitedir('/venv/lib/python3.12/site-packages')" > .venv/lib/python3.12/site-packages/_overlay.pth
fi
.venv/bin/python -c "import z3, labrea, confectioner; print('overlay ok: z3', z3.get_version_string())"
mkdir -p evidence replays
