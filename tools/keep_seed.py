#!/usr/bin/env python3
"""tools/keep_seed.py <src-dir> <seed-id> <property> : confirm a seeded change in a fresh scratch worktree of /repo HEAD
(tests pass with it; demo fails with it and passes without), run the property's check against it, keep it under seeded/."""
import json, os, shutil, subprocess, sys, tempfile

src, sid, prop = sys.argv[1], sys.argv[2], sys.argv[3]
extra_props = sys.argv[4:]
root = os.path.dirname(os.path.dirname(os.path.abspath(__file__)))
wt = tempfile.mkdtemp(prefix="seedwt-", dir="/tmp")
os.rmdir(wt)
sh = lambda cmd, **kw: subprocess.run(cmd, shell=True, capture_output=True, text=True, **kw)
meta = {"id": sid, "breaks_property": prop, "ran": []}
try:
    assert sh(f"git -C /repo worktree add -q --detach {wt} HEAD").returncode == 0
    head = sh("git -C /repo rev-parse --short HEAD").stdout.strip()
    meta["repo_commit"] = head
    r = sh(f"git -C {wt} apply {src}/patch.diff")
    if r.returncode != 0:
        r = sh(f"git -C {wt} apply --3way {src}/patch.diff")
    assert r.returncode == 0, "patch does not apply: " + r.stderr
    env = dict(os.environ, PYTHONPATH=wt)
    t = sh(f"cd {wt} && /venv/bin/python -m pytest -q -p no:cacheprovider tests 2>&1 | tail -1", env=env)
    meta["ran"].append({"cmd": "pytest (with change)", "result": t.stdout.strip()})
    d1 = sh(f"cd /tmp && /venv/bin/python {src}/demo.py", env=env)
    meta["ran"].append({"cmd": "demo.py with change", "exit": d1.returncode, "tail": d1.stdout[-300:]})
    # the property's check against the changed source
    for p in [prop] + extra_props:
        c = sh(f"cd {root} && LABREA_SRC={wt}/labrea PYTHONPATH={wt} ./check {p}", env=dict(os.environ, LABREA_SRC=f"{wt}/labrea", PYTHONPATH=wt, VERIF_EVIDENCE_DIR="/tmp/seed-evidence"))
        meta["ran"].append({"cmd": f"./check {p} (with change)", "exit": c.returncode, "lines": [l for l in c.stdout.splitlines() if l.startswith(("VIOLATION", "UNDECIDED", "KNOWN", p))][:8]})
    sh(f"git -C {wt} checkout -- .")
    d0 = sh(f"cd /tmp && /venv/bin/python {src}/demo.py", env=env)
    meta["ran"].append({"cmd": "demo.py without change", "exit": d0.returncode})
    ok = "passed" in t.stdout and "failed" not in t.stdout and d1.returncode != 0 and d0.returncode == 0
    meta["confirmed"] = ok
    notes = os.path.join(src, "notes.md")
    meta["needs_to_manifest"] = open(notes).read()[:1500] if os.path.exists(notes) else ""
    print(json.dumps(meta, indent=1))
    if ok:
        dst = os.path.join(root, "seeded", sid)
        os.makedirs(dst, exist_ok=True)
        shutil.copy(f"{src}/patch.diff", dst)
        shutil.copy(f"{src}/demo.py", dst)
        json.dump(meta, open(os.path.join(dst, "meta.json"), "w"), indent=1)
finally:
    sh(f"git -C /repo worktree remove --force {wt}")
    shutil.rmtree(wt, ignore_errors=True)
