#!/usr/bin/env python3
"""regenerates /verif/MANIFEST.json from the table below (keeps not_applicable current)."""
import json, os
ROOT = os.path.dirname(os.path.dirname(os.path.abspath(__file__)))
props = [json.loads(l) for l in open(os.path.join(ROOT, "properties.jsonl"))]
TECH = "contract-based deductive verification: AST->VC generation over the real /repo source (pyvc) + sidecar contracts, discharged by z3"
CLASSES19 = "Value, Apply, Bind, Switch, Overloaded, CaseWhen, Coalesce, Iter, EvaluatableArgs/Kwargs/Arguments, FunctionApplication, PartialApplication, PipelineStep, Pipeline, Logged, Computation, WithOptions, Cached"
NOTYET = "Option, Template, AllOptions, Namespace, Dataset, Map and dataset classes are not yet under contract (no claim for them); "
CLAIMS = {
 "C14": ("proof", "Every operation of labrea/runtime.py (enter, exit incl. exit-by-exception, current_runtime, run, handle/derive, handle_by_default, inherit, Request.run) is executed symbolically from the current source and shown by z3 to preserve a representation invariant coupling the per-thread restore stack to a ghost stack of entered runtimes, with postconditions from the statement (exit restores exactly the prior runtime incl. 'absent'; run serves override, else live default, else TypeError; derive leaves the parent untouched). No bound on history length, nesting, runtimes, threads or request types.",
         "Trusted: the ghost-stack formulation of 'well nested' and the invariant-implies-history argument (not mechanised); the engine's model of dict/list/attribute operations; handlers uninterpreted.", "DESIGN.md 7 C14, A.2"),
 "C03": ("proof", "Laws L1 (every reported key is present) and L2 (restriction-stability: a pruning of the dictionary agreeing on the reported keys gives the same keys and the same outcome) are proved for each of 19 classes from its real keys/evaluate/validate bodies by self-composition, assuming the same laws only for children; Cacheable.fingerprint is shown to refine F(sorted pairs of keys with their values in the caller's options) and the corollaries 'equal fingerprint => equal outcome', 'identical when agreeing', 'differs when a reported value differs' are proved from L1+L2. Unbounded in graph size, member counts and dictionaries.",
         NOTYET + "classes covered: " + CLASSES19 + ". Proved on the complement of the recorded finding regions F15/F18/F19/F24 (listed in evidence); OptTheory (confectioner mix/get_dotted_key) and json/sorted determinism assumed.", "DESIGN.md 4, 7 C03"),
 "C05": ("proof", "For 14 combinator classes the symbolic result of the real evaluate() is proved equal, path by path, to a spec term written from the property statement (switch: registered branch, else/undeterminable -> default, else fail; case: first matching; coalesce: first member that validates and evaluates; Iter/args: children's values in order; application: call of evaluated function on evaluated arguments; wrappers: the wrapped value under the overlaid options).",
         "Map, Dataset, collections helpers (list/tuple/set/dict wrappers = Iter.apply) not covered; Python operators and user callables uninterpreted; children by contract (A-ext).", "DESIGN.md 7 C05"),
 "C10": ("proof", "L3 (keys fails => evaluate fails), L4a (a passing validate excludes a missing-option failure of evaluate), L4t (under A-total validate/keys/evaluate succeed or fail together) and L10 (validate/keys never apply a user callable or evaluate a child outside selector positions) for each of 19 classes, from the real bodies.",
         NOTYET + "A-total is the stated precondition of the 'together' half; proved outside regions F15/F21; warm-cache validate relies on B-reliable-exists.", "DESIGN.md 7 C10"),
 "C11": ("proof", "L5 (explain covers keys; nothing listed absent => validate cannot fail for a missing option; a missing-key failure of validate/keys names a listed absent key), L5b (under A-total an absent listed key makes validate fail), L5d (if validate or evaluate succeeds explain succeeds), L6v (explain raises only InsufficientInformationError) and L10 for explain, for each of 19 classes.",
         NOTYET + "selector callables total (A-total-sel); proved outside regions F21/F24b.", "DESIGN.md 7 C11"),
 "C12": ("proof", "L6 for each of 19 classes through the real default EvaluateRequest handler: every failing path of public evaluate raises an EvaluationError whose source is the object evaluate() was called on and whose cause chain ends in the original exception (origin preserved by every wrapping); validate/keys raise EvaluationError subclasses only.",
         NOTYET + "'never stored' is covered for Cached by the cache-contract obligations of C01 (not yet registered); user callables raise Exception subclasses (A-pure).", "DESIGN.md 7 C12"),
}
checks = []
for pid, (cat, text, note, ref) in CLAIMS.items():
    checks.append({"property_id": pid, "quick_cmd": f"./check {pid} --tier quick", "thorough_cmd": f"./check {pid} --tier thorough",
                   "evidence_file": f"/verif/evidence/{pid}.json", "replay_cmd_template": f"./check {pid} --replay {{path}}", "engine": "pyvc",
                   "level_claimed": {"category": cat, "text": text, "design_ref": ref}, "level_note": note, "technique": TECH})
NA_REASON = "no check registered yet: the functions this property is anchored in (see DESIGN.md section 7) are not yet under contract in this build; no claim is made"
m = {"version": 1, "setup_cmd": "./setup.sh",
     "hooks": {"guard": "LABREA_VERIF", "enable": "no hooks: contracts are sidecar, the verifier reads /repo's source text",
               "baseline_off_cmd": "cd /repo && /venv/bin/python -m pytest -ra -q -p no:cacheprovider --timeout=900 --continue-on-collection-errors",
               "source_commits": [], "add_only": True},
     "engines": [{"name": "pyvc", "path": "/verif/pyvc", "serves_properties": sorted(CLAIMS),
                  "kind_free_text": "AST->z3 verification-condition generator (symbolic executor over the real /repo source) + sidecar contracts in /verif/contracts; real-code witness search/replay in /verif/harness"}],
     "checks": sorted(checks, key=lambda c: c["property_id"]),
     "not_applicable": [{"property_id": p["id"], "reason": NA_REASON} for p in props if p["id"] not in CLAIMS],
     "notes": "Repairs of genuine defects found while building are separate 'fix:' commits in /repo, recorded in /verif/known_findings.json (fixed); recorded-but-unrepaired findings are listed there with their regions."}
json.dump(m, open(os.path.join(ROOT, "MANIFEST.json"), "w"), indent=1)
print("claims:", sorted(CLAIMS))
