#!/usr/bin/env python3
"""tools/prep_seed.py <tag> <property-id>: scratch worktree /tmp/seedwt-<tag> of /repo HEAD + /tmp/seed-<tag>/{property.txt,prompt.txt} for a seeding sub-agent
(the agent gets only the property text and its worktree; nothing from /verif)."""
import json, os, subprocess, sys
tag, pid = sys.argv[1], sys.argv[2]
root = os.path.dirname(os.path.dirname(os.path.abspath(__file__)))
wt, out = f"/tmp/seedwt-{tag}", f"/tmp/seed-{tag}"
subprocess.run(f"git -C /repo worktree remove --force {wt}", shell=True, capture_output=True)
assert subprocess.run(f"git -C /repo worktree add -q --detach {wt} HEAD", shell=True).returncode == 0
os.makedirs(out, exist_ok=True)
prop = next(json.loads(l) for l in open(os.path.join(root, "properties.jsonl")) if json.loads(l)["id"] == pid)
text = f"{prop['title']}\n\n{prop['statement']}\n\nQuantified over: {prop['quantifier']['text']}\n"
open(f"{out}/property.txt", "w").write(text)
tmpl = open(os.path.join(root, "tools", "seed-prompt.txt")).read()
prompt = tmpl.replace("__WT__", wt).replace("__OUT__", out).replace("__PROP__", text)
open(f"{out}/prompt.txt", "w").write(prompt)
print(out + "/prompt.txt")
