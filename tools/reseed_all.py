#!/usr/bin/env python3
"""tools/reseed_all.py [-j N] [seed-id ...]: regression test of the machinery - apply every kept seed (seeded/<id>/patch.diff) to a
scratch worktree of the current /repo HEAD and run the owning check(s) against it. Every seed must make its check exit 1 with a
VIOLATION line. Worktrees live under /tmp and are removed at once; evidence of these runs goes to a scratch directory."""
import concurrent.futures as cf, json, os, shutil, subprocess, sys, tempfile

root = os.path.dirname(os.path.dirname(os.path.abspath(__file__)))
args = sys.argv[1:]
jobs = 3
if args[:1] == ["-j"]:
    jobs = int(args[1]); args = args[2:]
sh = lambda cmd, **kw: subprocess.run(cmd, shell=True, capture_output=True, text=True, **kw)


def one(sid):
    d = os.path.join(root, "seeded", sid)
    meta = json.load(open(os.path.join(d, "meta.json")))
    props = [r["cmd"].split()[1] for r in meta["ran"] if r["cmd"].startswith("./check") and r.get("exit") == 1]
    wt = tempfile.mkdtemp(prefix="reseed-", dir="/tmp"); os.rmdir(wt)
    evd = tempfile.mkdtemp(prefix="reseed-ev-", dir="/tmp")
    try:
        if sh(f"git -C /repo worktree add -q --detach {wt} HEAD").returncode:
            return sid, "worktree failed", []
        r = sh(f"git -C {wt} apply {d}/patch.diff")
        if r.returncode:
            r = sh(f"git -C {wt} apply --3way {d}/patch.diff")
        if r.returncode:
            return sid, "patch does not apply to HEAD", []
        out = []
        for p in props[:1]:
            env = dict(os.environ, LABREA_SRC=f"{wt}/labrea", PYTHONPATH=wt, VERIF_EVIDENCE_DIR=evd, VERIF_REPLAY_DIR=evd)
            c = sh(f"cd {root} && ./check {p}", env=env)
            v = [l for l in c.stdout.splitlines() if l.startswith("VIOLATION")]
            out.append((p, c.returncode, len(v)))
        ok = all(rc == 1 and n for _, rc, n in out) and out
        return sid, "caught" if ok else "MISSED", out
    finally:
        sh(f"git -C /repo worktree remove --force {wt}")
        shutil.rmtree(wt, ignore_errors=True)
        shutil.rmtree(evd, ignore_errors=True)


seeds = args or sorted(s for s in os.listdir(os.path.join(root, "seeded")) if not s.startswith("_") and os.path.exists(os.path.join(root, "seeded", s, "meta.json")))
bad = 0
with cf.ThreadPoolExecutor(jobs) as ex:
    for sid, verdict, out in ex.map(one, seeds):
        print(f"{sid:55s} {verdict} {out}", flush=True)
        bad += verdict != "caught"
sys.exit(1 if bad else 0)
