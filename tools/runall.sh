#!/bin/sh
# run every registered quick check on the real tree, validate evidence against the schema
cd "$(dirname "$0")/.."
rc=0
for P in $(python3 -c "import json; print(' '.join(c['property_id'] for c in json.load(open('MANIFEST.json'))['checks']))"); do
  ./check $P "$@" | tail -1 || rc=1
done
.venv/bin/python - <<'PY'
import json, jsonschema, glob
m = json.load(open('MANIFEST.json')); jsonschema.validate(m, json.load(open('/root/.vp/MANIFEST.schema.json')))
sch = json.load(open('/root/.vp/EVIDENCE.schema.json'))
for c in m['checks']:
    e = json.load(open(c['evidence_file'])); jsonschema.validate(e, sch)
    cov = e['coverage']
    assert e['level'] != 'proof' or cov['obligations'] == cov['discharged'], (c['property_id'], cov['obligations'], cov['discharged'])
print('manifest + evidence valid for', len(m['checks']), 'checks')
PY
exit $rc
