#!/bin/sh
# tools/try_patch.sh <patch-or-python-edit-script> <prop>... : apply an edit to a scratch worktree of /repo HEAD and run the given checks against it
# (evidence and replays of these runs go to a scratch directory; the worktree is removed afterwards)
EDIT="$1"; shift
WT=$(mktemp -d /tmp/trywt-XXXX); rmdir "$WT"
EV=$(mktemp -d /tmp/tryev-XXXX)
git -C /repo worktree add -q --detach "$WT" HEAD || exit 3
case "$EDIT" in
  *.diff|*.patch) git -C "$WT" apply "$EDIT" || { git -C /repo worktree remove --force "$WT"; exit 3; } ;;
  revert:*) (cd "$WT" && git revert --no-commit "${EDIT#revert:}") || { git -C /repo worktree remove --force "$WT"; exit 3; } ;;
  *) (cd "$WT" && python3 "$EDIT") || { git -C /repo worktree remove --force "$WT"; exit 3; } ;;
esac
(cd "$WT" && /venv/bin/python -m pytest -q -p no:cacheprovider tests 2>&1 | tail -1)
cd "$(dirname "$0")/.."
for P in "$@"; do
  LABREA_SRC="$WT/labrea" PYTHONPATH="$WT" VERIF_EVIDENCE_DIR="$EV" VERIF_REPLAY_DIR="$EV" ./check "$P" 2>&1 | grep -v "^KNOWN" | cut -c1-300 | tail -6
done
git -C /repo worktree remove --force "$WT"; rm -rf "$WT" "$EV"
